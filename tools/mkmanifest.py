#!/usr/bin/env python3
"""Regenerate MANIFEST.json from the table below (keeps it schema-valid)."""
import json
import os

VERIF = os.path.dirname(os.path.dirname(os.path.abspath(__file__)))

TB = (
    "Sampling, not enumeration. Trusted: the reference model (one parent pointer per node, Python built-ins), the "
    "statement-level scans of the live structure, miniprotoc (stand-in for protoc), the uuid4 / iteration-order / node-hash / byte-stream seams."
)

CHECKS = {
    "C03": dict(
        section="3/C03",
        technique="deterministic simulation: seeded ownership histories over several IRs; invariant after every step (UUID table == reachable set, probed with every UUID ever seen); ddmin-minimised replay",
        text="Seeded search over ownership histories (both ends of all six containment relations, subtree moves across IRs, constructor arguments, failing bulk operations, collections and lazy views of collections as arguments, loaded / deep-copied / pickled twins with equal UUIDs, collections of 300 members, set-iteration order permuted by the scheduler). After every step every IR's get_by_uuid is compared with the reachable set computed by walking the public collections. Exploration is the right level: the property quantifies over histories, which can only be sampled.",
    ),
    "C04": dict(
        section="3/C04",
        technique="deterministic simulation: seeded ownership histories; forest invariants scanned from both ends after every step + reference-model comparison of every node (bystanders untouched)",
        text="Same workload as C03 plus attribute edits on bystanders. After every step: child in parent's collection <=> parent attribute names it, no node twice or in two collections, derived accessors and aggregate iterators equal the forest, and every labeled node equals the reference model (a moved node left its previous parent; unnamed nodes unchanged).",
    ),
    "C05": dict(
        section="3/C05",
        technique="deterministic simulation: edit task and lookup task interleaved by a seeded scheduler; every block lookup judged against a must/may fresh scan of the live structure",
        text="Two cooperating tasks on one world; the scheduler decides where lookups fall between index-affecting edits (sparse, dense, every step, bursts). Each answer of the 12+6 block lookup methods at every scope is judged against a scan of the live structure (must/may per DESIGN I1/I2).",
    ),
    "C06": dict(
        section="3/C06",
        technique="deterministic simulation: interval/section edit task and lookup task interleaved by a seeded scheduler; answers judged against a fresh scan and the statement's extent formula",
        text="As C05 for byte_intervals_on/at, sections_on/at and Section.address/size; edits include address to/from None, size, moves, removal and re-adding.",
    ),
    "C12": dict(
        section="3/C12",
        technique="deterministic simulation: one edit history replayed in lockstep on 3-5 identical worlds under different seeded lookup schedules; final lookup battery must agree pairwise",
        text="The schedule itself is the searched dimension: world 0 issues no lookup before the end, world 1 after every step, the others sparse or in bursts aimed at pending <, ==, > collection size. A fixed final battery of all lookups is issued in every world and the answers must be pairwise equal. Reach probes report which LazyIntervalTree.get branch ran how often.",
    ),
    "C13": dict(
        section="3/C13",
        technique="deterministic simulation: mapping-operation histories on symbolic_expressions interleaved with seeded lookups; answers judged against a fresh scan (exact and ordered at interval scope, must/may outside)",
        text="Edit task: every mutable-mapping operation, whole-mapping assignment, interval address changes and moves. Lookup task: symbolic_expressions_at[_offset] at every scope with points and stepped ranges.",
    ),
    "C01": dict(
        section="3/C01",
        technique="deterministic simulation: save / load / crash-restart and write / read faults as generated operations inside seeded edit histories over a simulated disk; loaded IR vs model snapshot, deep_eq both ways, re-save equality",
        text="save, load (twin IR) and crash-restart (every object dropped, latest file of every saved IR reloaded, model rolled back to the snapshot of that save) are placed by the scheduler at arbitrary points of edit histories over several generations, through the stream API of a simulated disk and the path API on real files; write errors (stream failing after k bytes, ENOSPC from /dev/full) and read errors are injected as operations of their own: a failing save must not report success, a failing load must not return an IR. At every load of a file saved from a self-contained state the loaded IR is compared with the snapshot node by node, deep_eq is evaluated both ways against the live original, and the loaded IR is saved again and compared field by field.",
    ),
    "C02": dict(
        section="3/C02",
        technique="deterministic simulation with a foreign peer: writer direction = bytes on the simulated disk parsed with message classes generated from /repo/proto vs model; reader direction = files emitted by an independent in-process writer (permuted fields, explicit defaults, schema enum sweep) loaded by gtirb",
        text="Both directions are judged separately. Writer: every save's bytes (header + message) are compared field by field with the model, enum numbers resolved through the schema descriptors. Reader: a peer that never uses gtirb's writer emits schema-valid, referentially closed messages in scheduled styles; the loaded attributes must equal the peer's spec, and every enum constant of the schema must be accepted. Half of the runs use the pure-Python protobuf backend.",
    ),
    "C07": dict(
        section="3/C07",
        technique="deterministic simulation (partly a pure function, see level_note): tables of random type trees ride 1-4 save / crash-restart generations; first read (lazy decode against the live IR) is placed by the scheduler relative to attach/detach/move operations",
        text="Value equality after save/restart generations (doubles bit for bit), exact consumption (reference decode of the written bytes consumes all of them), and the schedule-dependent clause: UUID/Offset entries naming a node attached to the loading IR at decode time are that object, others plain UUIDs.",
        note="decode(encode(v,T),T) == v is a pure function of (T, v); for that part the simulator is a seeded generator with replay and shrinking only. The lazy-decode schedule, the persistence path and the peer are the simulated parts. Trusted: refcodec (written from AuxData.hpp), the reference model.",
    ),
    "C08": dict(
        section="3/C08",
        technique="deterministic simulation, two-party: every table gtirb writes to the simulated disk is decoded / byte-compared by an independent reference codec; every table the peer writes is decoded by gtirb at a scheduled time",
        text="(a) bytes gtirb writes decode under the reference codec (written from AuxData.hpp/AuxData.md, sharing no code with serialization.py) to the model value, byte-identical for types without set/mapping; (b) peer-written tables (reference encoder, permuted element order, repeated elements) decode under gtirb to the model value; (c) Java clause: the repository's Java codecs decode gtirb's bytes to the model value and gtirb decodes Java's re-encoding to the model value.",
        note="value -> bytes is a pure function; the simulation contributes the two-party setting (who wrote the bytes, when they are decoded). The repository's Java codecs ARE executed (gsim/javastage.py: javac-built from the working tree with a stub for com.google.protobuf.ByteString, batch driver java/Driver.java) as a differential stage outside the simulator, for the types Java supports (no double/Addr, tuples <= 5, variants of 2, 3 and 11 alternatives); if javac is missing the stage reports 'unavailable' in evidence, prints a NOTE and claims nothing; Java sources that do not compile end the check with HARNESS-ERROR. Trusted: refcodec (written from AuxData.hpp), the Java driver's rendering.",
    ),
    "C09": dict(
        section="3/C09",
        technique="deterministic simulation + fault enumeration: identity oracle at every load/restart of own and peer files; every 4th run enumerates single dangling / ill-typed references of each kind on a valid file and requires DeserializationError",
        text="Positive direction: after every load the containment walk gives uuid -> object and every referent, entry point, edge endpoint (three access paths) and expression symbol must be that very object; AuxData UUID/Offset entries are read at a scheduled time. Negative direction: structural single faults (dangling incl. near-miss / nil UUIDs, ill-typed, also with the offending UUID listed as a CFG vertex) for each of the reference kinds -> DeserializationError.",
    ),
    "C10": dict(
        section="3/C10",
        technique="deterministic simulation: seeded symbol histories (rename, payload switch, moves of symbols and referents); after every step symbols_named / references vs scans of the live structure",
        text="After every step, for every module x every name in use (plus unused ones) and for every block and proxy, the index-backed lookups must equal scans of module.symbols.",
    ),
    "C11": dict(
        section="3/C11",
        technique="deterministic simulation: set-operation histories on ir.cfg run side by side with a Python set of (source,target,label); membership, length, iteration and adjacency views compared after every step",
        text="All mutable-set operations incl. in-place operators over attached and free nodes, self-loops, parallel edges differing in label, None vs all-false label; pop() order decided by a reproducible insertion order.",
    ),
    "C14": dict(
        section="3/C14",
        technique="deterministic simulation: per-table state machine {untouched, read, mutated, assigned, retyped} x save x crash-restart generations, incl. peer-written unknown / partially unknown / non-canonical tables; oracle on the message taken from the simulated disk",
        text="Which tables are read or edited before which save is the scheduler's choice. Untouched -> byte identical; unknown codec reached -> byte identical even after a read; otherwise reference-decoded written bytes == current value under the current type name.",
    ),
    "C17": dict(
        section="3/C17",
        level="fault_enumeration",
        technique="deterministic simulation with single-fault enumeration on files of the simulated disk: every cut point, torn tails, lost/duplicated write chunks, header bytes, bit flips / byte sets, structural faults; reject-or-coherent oracle under a CPU-time watchdog",
        text="Per seeded valid file (which must load): every truncation, every header-byte variation, every chunk loss/duplication and the whole structural fault list are enumerated; bit flips and byte sets are seeded 1/8 in the quick tier and exhaustive in the thorough tier. Accepted files go through the coherence checker (strict UUID table, both-ends containment, typed and attached references, bytes <= size, saves again).",
    ),
    "C18": dict(
        section="3/C18",
        technique="deterministic simulation, replicated state machines: two replicas fed the same log, diverged by single-field perturbations and re-converged; deep_eq both ways vs equality of canonical model trees, iteration order permuted per call",
        text="deep_eq(A,B) == deep_eq(B,A) == (canonical trees equal) at IR level after every perturbation and catch-up, node-level reflexivity/symmetry/true-on-equal/false-on-own-difference; AuxData value changes must not change the answer.",
    ),
    "C19": dict(
        section="3/C19",
        technique="deterministic simulation: size / initialized_size / contents histories against a bytearray model with block views probed after every step, interleaved with save / crash-restart",
        text="After every step initialized_size == len(contents) <= size, model equality, block address/contents/contains_* at probe points around both ends; construction with more bytes than size must be rejected; states survive save + restart.",
    ),
    "C16": dict(
        section="3/C16",
        technique="deterministic simulation: collection-call histories run side by side with built-in list/set/dict (refinement), including failing calls and iterables that fail midway",
        text="Every owning collection is shadowed by the corresponding built-in holding labels; return value, exception class, resulting contents and untouched ownership are compared after each call; a failed call (missing element, bad index, index that is no integer, iterable failing midway, key that is no offset) must leave the C03/C04 invariants intact; returned plain values are scribbled on; arguments also alias the collection itself or walk another owning collection lazily.",
    ),
}

NOT_APPLICABLE = [
    {
        "property_id": "C15",
        "reason": "Serialization._parse_type is a total pure function of one string: no state survives a call, nothing is deferred, no stream, schedule, fault or other party. Generating strings against a reference recogniser would be input generation under a simulator's name (DESIGN.md 3/C15).",
    },
]

PENDING = {
    # claimed once their profile is built; until then listed as not applicable *yet*
}


def main():
    man = {
        "version": 1,
        "setup_cmd": "python3 tools/setup.py",
        "hooks": {
            "guard": "GTIRB_VERIF",
            "enable": "no source hooks: checks build python/gtirb from /repo's working tree into /verif/.build and patch that copy from outside (uuid4 seam, SetWrapper.__iter__ order seam, Node.__hash__ by UUID, LazyIntervalTree.get probe); files go through stream objects or real paths under the build directory",
            "baseline_off_cmd": "cd /repo && /venv/bin/python -m pytest -ra -q -p no:cacheprovider --timeout=900 --continue-on-collection-errors",
            "source_commits": [],
            "add_only": True,
        },
        "engines": [
            {
                "name": "gsim",
                "path": "gsim/",
                "serves_properties": sorted(CHECKS),
                "kind_free_text": "deterministic simulator for a single-process library: label-addressed operation language, seeded scheduler (op generation, lookup placement, set iteration order, uuid4), simulated disk with fault injection, reference model + live-structure scan oracles, ddmin shrinking, replay files",
            }
        ],
        "checks": [],
        "not_applicable": list(NOT_APPLICABLE),
        "notes": "All checks: ./check <id> --tier quick|thorough; exit 0 clean, 1 with 'VIOLATION property=<id> replay=<path>', 2 HARNESS-ERROR (no verdict). Replays: ./check <id> --replay <path>. Known findings: known_findings.json. tools/determinism.py, tools/mutants.py and tools/seeded.py (250 independently seeded changes under seeded/) are the self-validation tools.",
    }
    all_ids = ["C%02d" % i for i in range(1, 20)]
    for pid in all_ids:
        if pid in CHECKS:
            c = CHECKS[pid]
            man["checks"].append(
                {
                    "property_id": pid,
                    "quick_cmd": "./check %s --tier quick" % pid,
                    "thorough_cmd": "./check %s --tier thorough" % pid,
                    "evidence_file": "evidence/%s.json" % pid,
                    "replay_cmd_template": "./check %s --replay {path}" % pid,
                    "engine": "gsim",
                    "level_claimed": {"category": c.get("level", "exploration"), "text": c["text"], "design_ref": "DESIGN.md " + c["section"]},
                    "level_note": c.get("note", TB),
                    "technique": c["technique"],
                }
            )
        elif not any(n["property_id"] == pid for n in man["not_applicable"]):
            man["not_applicable"].append({"property_id": pid, "reason": PENDING.get(pid, "not claimed yet: the simulation profile for this property is still being built (see DESIGN.md section 3); no check is registered, so nothing is asserted about it")})
    with open(os.path.join(VERIF, "MANIFEST.json"), "w") as f:
        json.dump(man, f, indent=1)
    print("MANIFEST.json: %d checks, %d not_applicable" % (len(man["checks"]), len(man["not_applicable"])))


if __name__ == "__main__":
    main()
