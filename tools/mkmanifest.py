#!/usr/bin/env python3
"""Regenerate MANIFEST.json from the table below (keeps it schema-valid)."""
import json
import os

VERIF = os.path.dirname(os.path.dirname(os.path.abspath(__file__)))

TB = (
    "Sampling, not enumeration. Trusted: the reference model (one parent pointer per node, Python built-ins), the "
    "statement-level scans of the live structure, miniprotoc (stand-in for protoc), the uuid4/iteration-order/file seams."
)

CHECKS = {
    "C03": dict(
        section="3/C03",
        technique="deterministic simulation: seeded ownership histories over several IRs; invariant after every step (UUID table == reachable set, probed with every UUID ever seen); ddmin-minimised replay",
        text="Seeded search over ownership histories (both ends of all six containment relations, subtree moves across IRs, constructor arguments, failing bulk operations, set-iteration order permuted by the scheduler). After every step every IR's get_by_uuid is compared with the reachable set computed by walking the public collections. Exploration is the right level: the property quantifies over histories, which can only be sampled.",
    ),
    "C04": dict(
        section="3/C04",
        technique="deterministic simulation: seeded ownership histories; forest invariants scanned from both ends after every step + reference-model comparison of every node (bystanders untouched)",
        text="Same workload as C03 plus attribute edits on bystanders. After every step: child in parent's collection <=> parent attribute names it, no node twice or in two collections, derived accessors and aggregate iterators equal the forest, and every labeled node equals the reference model (a moved node left its previous parent; unnamed nodes unchanged).",
    ),
    "C05": dict(
        section="3/C05",
        technique="deterministic simulation: edit task and lookup task interleaved by a seeded scheduler; every block lookup judged against a must/may fresh scan of the live structure",
        text="Two cooperating tasks on one world; the scheduler decides where lookups fall between index-affecting edits (sparse, dense, every step, bursts). Each answer of the 12+6 block lookup methods at every scope is judged against a scan of the live structure (must/may per DESIGN I1/I2).",
    ),
    "C06": dict(
        section="3/C06",
        technique="deterministic simulation: interval/section edit task and lookup task interleaved by a seeded scheduler; answers judged against a fresh scan and the statement's extent formula",
        text="As C05 for byte_intervals_on/at, sections_on/at and Section.address/size; edits include address to/from None, size, moves, removal and re-adding.",
    ),
    "C12": dict(
        section="3/C12",
        technique="deterministic simulation: one edit history replayed in lockstep on 3-5 identical worlds under different seeded lookup schedules; final lookup battery must agree pairwise",
        text="The schedule itself is the searched dimension: world 0 issues no lookup before the end, world 1 after every step, the others sparse or in bursts aimed at pending <, ==, > collection size. A fixed final battery of all lookups is issued in every world and the answers must be pairwise equal. Reach probes report which LazyIntervalTree.get branch ran how often.",
    ),
    "C13": dict(
        section="3/C13",
        technique="deterministic simulation: mapping-operation histories on symbolic_expressions interleaved with seeded lookups; answers judged against a fresh scan (exact and ordered at interval scope, must/may outside)",
        text="Edit task: every mutable-mapping operation, whole-mapping assignment, interval address changes and moves. Lookup task: symbolic_expressions_at[_offset] at every scope with points and stepped ranges.",
    ),
    "C16": dict(
        section="3/C16",
        technique="deterministic simulation: collection-call histories run side by side with built-in list/set/dict (refinement), including failing calls and iterables that fail midway",
        text="Every owning collection is shadowed by the corresponding built-in holding labels; return value, exception class, resulting contents and untouched ownership are compared after each call; a failed call must leave the C03/C04 invariants intact.",
    ),
}

NOT_APPLICABLE = [
    {
        "property_id": "C15",
        "reason": "Serialization._parse_type is a total pure function of one string: no state survives a call, nothing is deferred, no stream, schedule, fault or other party. Generating strings against a reference recogniser would be input generation under a simulator's name (DESIGN.md 3/C15).",
    },
]

PENDING = {
    # claimed once their profile is built; until then listed as not applicable *yet*
}


def main():
    man = {
        "version": 1,
        "setup_cmd": "python3 tools/setup.py",
        "hooks": {
            "guard": "GTIRB_VERIF",
            "enable": "no source hooks: checks build python/gtirb from /repo's working tree into /verif/.build and patch that copy from outside (uuid4 seam, SetWrapper.__iter__ order seam, open() in gtirb.ir, LazyIntervalTree.get probe)",
            "baseline_off_cmd": "cd /repo && /venv/bin/python -m pytest -ra -q -p no:cacheprovider --timeout=900 --continue-on-collection-errors",
            "source_commits": [],
            "add_only": True,
        },
        "engines": [
            {
                "name": "gsim",
                "path": "gsim/",
                "serves_properties": sorted(CHECKS),
                "kind_free_text": "deterministic simulator for a single-process library: label-addressed operation language, seeded scheduler (op generation, lookup placement, set iteration order, uuid4), simulated disk with fault injection, reference model + live-structure scan oracles, ddmin shrinking, replay files",
            }
        ],
        "checks": [],
        "not_applicable": list(NOT_APPLICABLE),
        "notes": "All checks: ./check <id> --tier quick|thorough; exit 0 clean, 1 with 'VIOLATION property=<id> replay=<path>', 2 HARNESS-ERROR (no verdict). Replays: ./check <id> --replay <path>. Known findings: known_findings.json. tools/determinism.py and tools/mutants.py are the self-validation tools.",
    }
    all_ids = ["C%02d" % i for i in range(1, 20)]
    for pid in all_ids:
        if pid in CHECKS:
            c = CHECKS[pid]
            man["checks"].append(
                {
                    "property_id": pid,
                    "quick_cmd": "./check %s --tier quick" % pid,
                    "thorough_cmd": "./check %s --tier thorough" % pid,
                    "evidence_file": "evidence/%s.json" % pid,
                    "replay_cmd_template": "./check %s --replay {path}" % pid,
                    "engine": "gsim",
                    "level_claimed": {"category": c.get("level", "exploration"), "text": c["text"], "design_ref": "DESIGN.md " + c["section"]},
                    "level_note": c.get("note", TB),
                    "technique": c["technique"],
                }
            )
        elif not any(n["property_id"] == pid for n in man["not_applicable"]):
            man["not_applicable"].append({"property_id": pid, "reason": PENDING.get(pid, "not claimed yet: the simulation profile for this property is still being built (see DESIGN.md section 3); no check is registered, so nothing is asserted about it")})
    with open(os.path.join(VERIF, "MANIFEST.json"), "w") as f:
        json.dump(man, f, indent=1)
    print("MANIFEST.json: %d checks, %d not_applicable" % (len(man["checks"]), len(man["not_applicable"])))


if __name__ == "__main__":
    main()
