#!/usr/bin/env python3
"""Run checks against the seeded changes kept under /verif/seeded/<id>/.

Each change is applied to a SCRATCH COPY of /repo's python package (never to
/repo itself); the checks are pointed at the copy with GSIM_REPO.

usage: tools/seeded.py [ID...] [--props C01,C02] [--all-props] [--runs N] [--verify]
  --verify   also re-confirm the demonstration: demo fails with the change,
             passes without, and the repo's 115 tests pass with the change.
"""
import argparse
import json
import os
import re
import shutil
import subprocess
import sys
import tempfile
import time

VERIF = os.path.dirname(os.path.dirname(os.path.abspath(__file__)))
SEEDED = os.path.join(VERIF, "seeded")


def scratch_copy():
    d = tempfile.mkdtemp(prefix="gsim-seed-")
    for sub in ("python", "proto", "java"):
        shutil.copytree(os.path.join("/repo", sub), os.path.join(d, sub))
    shutil.copy("/repo/version.txt", d)
    return d


def apply_patch(d, patch):
    cp = subprocess.run(["patch", "-p1", "-s", "-i", patch], cwd=d, capture_output=True, text=True)
    return cp.returncode == 0, cp.stdout + cp.stderr


def build(d, tag):
    env = dict(os.environ, GSIM_REPO=d)
    return subprocess.run([sys.executable, os.path.join(VERIF, "gsim", "build.py"), tag], capture_output=True, text=True, env=env).stdout.strip()


def run_demo(build_dir, demo):
    cp = subprocess.run(["/venv/bin/python", demo], capture_output=True, text=True, env=dict(os.environ, PYTHONPATH=build_dir, PYTHONDONTWRITEBYTECODE="1"), timeout=300)
    return cp.returncode, (cp.stdout + cp.stderr).strip().splitlines()[-1:] or [""]


def main():
    ap = argparse.ArgumentParser()
    ap.add_argument("ids", nargs="*")
    ap.add_argument("--props")
    ap.add_argument("--all-props", action="store_true")
    ap.add_argument("--runs", type=int)
    ap.add_argument("--verify", action="store_true")
    ap.add_argument("--record", action="store_true", help="store the outcome in each meta.json")
    a = ap.parse_args()
    ids = a.ids or sorted(x for x in os.listdir(SEEDED) if os.path.isdir(os.path.join(SEEDED, x)))
    man = json.load(open(os.path.join(VERIF, "MANIFEST.json")))
    allp = [c["property_id"] for c in man["checks"]]
    rows = []
    for sid in ids:
        sd = os.path.join(SEEDED, sid)
        meta = json.load(open(os.path.join(sd, "meta.json")))
        d = scratch_copy()
        try:
            ok, msg = apply_patch(d, os.path.join(sd, "patch.diff"))
            if not ok:
                rows.append((sid, "-", "PATCH DOES NOT APPLY: " + msg[:200]))
                continue
            if a.verify:
                b1 = build(d, "seed-mut")
                pristine = scratch_copy()
                b0 = build(pristine, "seed-base")
                rc1, o1 = run_demo(b1, os.path.join(sd, "demo.py"))
                rc0, o0 = run_demo(b0, os.path.join(sd, "demo.py"))
                t = subprocess.run(["/venv/bin/python", "-m", "pytest", "-q", "-p", "no:cacheprovider", "python/tests", "src/test/testInterop"], cwd="/repo", capture_output=True, text=True, env=dict(os.environ, PYTHONPATH=b1, PYTHONDONTWRITEBYTECODE="1"))
                rows.append((sid, "verify", "demo with change: exit %d (%s); without: exit %d; repo tests with change: %s" % (rc1, o1[0][:80], rc0, t.stdout.strip().splitlines()[-1])))
                shutil.rmtree(b1, ignore_errors=True)
                shutil.rmtree(b0, ignore_errors=True)
                shutil.rmtree(pristine, ignore_errors=True)
            props = allp if a.all_props else (a.props.split(",") if a.props else meta.get("check_with", [meta["property"]]))
            for p in props:
                t0 = time.time()
                cmd = [os.path.join(VERIF, "check"), p, "--tier", "quick", "--no-evidence"]
                if a.runs:
                    cmd += ["--runs", str(a.runs)]
                cp = subprocess.run(cmd, capture_output=True, text=True, env=dict(os.environ, GSIM_REPO=d))
                out = cp.stdout
                caught = cp.returncode == 1 and "VIOLATION property=%s" % p in out
                m = re.search(r"runs=(\d+)", out)
                mm = re.search(r"minimised to (\d+) operations", out)
                vv = re.search(r"violation: (\S+)", out)
                st = "CAUGHT" if caught else ("clean" if cp.returncode == 0 else "exit%d" % cp.returncode)
                rows.append((sid, p, "%s runs=%s min_ops=%s check=%s %.0fs" % (st, m and m.group(1), mm and mm.group(1), vv and vv.group(1), time.time() - t0)))
                if a.record:
                    meta.setdefault("results", {})[p] = {"outcome": st, "runs_until_caught": m and int(m.group(1)), "minimised_ops": mm and int(mm.group(1)), "check": vv and vv.group(1), "tier": "quick"}
                    json.dump(meta, open(os.path.join(sd, "meta.json"), "w"), indent=1)
        finally:
            shutil.rmtree(d, ignore_errors=True)
    for r in rows:
        print("%-34s %-6s %s" % r)
    for f in os.listdir(os.path.join(VERIF, "replays")):
        if f.endswith(".json"):
            os.remove(os.path.join(VERIF, "replays", f))


if __name__ == "__main__":
    main()
