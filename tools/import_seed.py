#!/usr/bin/env python3
"""Import the deliverables of a seeding sub-agent worktree into /verif/seeded.
usage: tools/import_seed.py C05 "<needs1>" "<needs2>"  (reads /tmp/seed/C05/patch{1,2}.diff, demo{1,2}.py, NOTES.md)"""
import json, os, shutil, sys
VERIF = os.path.dirname(os.path.dirname(os.path.abspath(__file__)))
pid = sys.argv[1]
src = os.environ.get("SEED_SRC", "/tmp/seed") + "/" + pid
for k in (1, 2):
    p = os.path.join(src, "patch%d.diff" % k)
    if not os.path.exists(p):
        continue
    sid = "%s-%s%d" % (pid, sys.argv[4] if len(sys.argv) > 4 else "s", k)
    d = os.path.join(VERIF, "seeded", sid)
    os.makedirs(d, exist_ok=True)
    shutil.copy(p, os.path.join(d, "patch.diff"))
    shutil.copy(os.path.join(src, "demo%d.py" % k), os.path.join(d, "demo.py"))
    if os.path.exists(os.path.join(src, "NOTES.md")):
        shutil.copy(os.path.join(src, "NOTES.md"), os.path.join(d, "NOTES.md"))
    meta = {"property": pid, "needs_to_manifest": sys.argv[1 + k] if len(sys.argv) > 1 + k else "", "origin": "fresh sub-agent given only the property text and a scratch worktree", "what_i_ran": "tools/seeded.py %s --verify (demo fails with / passes without the change, repo's 115 tests pass with it) and the checks listed in results", "results": {}}
    json.dump(meta, open(os.path.join(d, "meta.json"), "w"), indent=1)
    print("imported", sid)
