#!/usr/bin/env python3
"""Print the markdown table of seeded changes from seeded/*/meta.json."""
import json, os
V = os.path.dirname(os.path.dirname(os.path.abspath(__file__)))
print("| id | what it needs to manifest | caught by (quick tier) | runs | min ops |")
print("|----|---------------------------|------------------------|------|---------|")
for sid in sorted(os.listdir(os.path.join(V, "seeded"))):
    m = json.load(open(os.path.join(V, "seeded", sid, "meta.json")))
    for p, r in sorted(m.get("results", {}).items()):
        if r["outcome"] != "CAUGHT":
            print("| %s | %s | %s: not caught, by decision (see meta.json) | - | - |" % (sid, m["needs_to_manifest"], p))
            continue
        print("| %s | %s | %s `%s` | %s | %s |" % (sid, m["needs_to_manifest"], p, r["check"], r["runs_until_caught"], r["minimised_ops"]))
