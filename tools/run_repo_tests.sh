#!/bin/bash
# Run the repository's own 115 tests against a package BUILT FROM /repo's
# working tree (the pinned baseline command imports the wheel installed in
# /venv, so it cannot see edits under /repo/python/gtirb).
# usage: tools/run_repo_tests.sh [python|upb]
set -e
cd "$(dirname "$0")/.."
B=$(python3 gsim/build.py repotests-$$)
trap 'rm -rf "$B"' EXIT
if [ "$1" = "python" ]; then export PROTOCOL_BUFFERS_PYTHON_IMPLEMENTATION=python; fi
cd /repo
PYTHONPATH="$B" PYTHONDONTWRITEBYTECODE=1 timeout 900 /venv/bin/python -m pytest -q -p no:cacheprovider --timeout=900 python/tests src/test/testInterop 2>&1 | tail -15
