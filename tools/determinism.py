#!/usr/bin/env python3
"""Determinism self-test: every run index executed twice or more, in fresh
interpreters with different PYTHONHASHSEED values and different worker counts;
all run digests must match pairwise.

usage: tools/determinism.py [PROPS...] [--runs N]
"""
import argparse
import json
import os
import subprocess
import sys
import tempfile

VERIF = os.path.dirname(os.path.dirname(os.path.abspath(__file__)))


def digests(prop, runs, hashseed, jobs, seed):
    fd, path = tempfile.mkstemp(prefix="gsim-dig-")
    os.close(fd)
    env = dict(os.environ, PYTHONHASHSEED=str(hashseed), PYTHONDONTWRITEBYTECODE="1", GSIM_LOG_STATE="1")
    cp = subprocess.run(
        ["/venv/bin/python", os.path.join(VERIF, "gsim", "main.py"), prop, "--runs", str(runs), "--seed", str(seed), "--jobs", str(jobs), "--digests", path, "--no-evidence", "--wall", "3000", "--keep-going"],
        capture_output=True, text=True, env=env)
    d = dict(line.split() for line in open(path))
    os.remove(path)
    return d, cp


def main():
    ap = argparse.ArgumentParser()
    ap.add_argument("props", nargs="*")
    ap.add_argument("--runs", type=int, default=400)
    ap.add_argument("--seed", type=int, default=0)
    a = ap.parse_args()
    props = a.props
    if not props:
        man = json.load(open(os.path.join(VERIF, "MANIFEST.json")))
        props = [c["property_id"] for c in man["checks"]]
    bad = 0
    for p in props:
        base, cp0 = digests(p, a.runs, 0, 16, a.seed)
        if cp0.returncode not in (0, 1):
            print(p, "runner exit", cp0.returncode, cp0.stdout[-500:], cp0.stderr[-500:])
            bad += 1
            continue
        for hs, jobs in ((1, 16), (12345, 4), (7, 2)):
            d, cp = digests(p, a.runs, hs, jobs, a.seed)
            diff = [k for k in base if d.get(k) != base[k]]
            print("%s: %d runs, PYTHONHASHSEED=%s jobs=%d: %d digests differ%s" % (p, len(base), hs, jobs, len(diff), (" e.g. run " + diff[0]) if diff else ""))
            bad += len(diff)
            if len(d) != len(base):
                print("  run count differs: %d vs %d" % (len(d), len(base)))
                bad += 1
    print("DETERMINISM", "OK" if not bad else "BROKEN")
    return 1 if bad else 0


if __name__ == "__main__":
    sys.exit(main())
