#!/venv/bin/python
"""Dump the full event log of one run: tools/dumplog.py PROP SEED RUN  (honours PYTHONHASHSEED)"""
import os, sys
V = os.path.dirname(os.path.dirname(os.path.abspath(__file__)))
sys.path.insert(0, V)
from gsim import build
d = build.build("dump-%d" % os.getpid())
os.environ["GSIM_BUILD_DIR"] = d
from gsim import runner, core
prop, seed, run = sys.argv[1], int(sys.argv[2]), int(sys.argv[3])
runner.worker_init(d, runner.backend_of(run))
lines = []
orig = core.EventLog.add
def add(self, rec):
    import json
    lines.append(json.dumps(rec, sort_keys=True, default=str))
    return orig(self, rec)
core.EventLog.add = add
prof = runner._profile(prop)
r = prof.run(runner.CTX, seed, run)
print("\n".join(lines))
print("DIGEST", r.digest, "violation", r.violation, "aborted", r.aborted)
build.clean("dump-%d" % os.getpid())
import json
for i, o in enumerate(r.ops):
    print("OP", i, json.dumps(o, sort_keys=True))
