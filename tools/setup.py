#!/usr/bin/env python3
"""Offline setup: nothing is installed. Verifies that /venv has what the
built copy of /repo's Python package needs and that the package builds."""
import os
import subprocess
import sys

VERIF = os.path.dirname(os.path.dirname(os.path.abspath(__file__)))
sys.path.insert(0, VERIF)
PY = "/venv/bin/python"


def main():
    r = subprocess.run([PY, "-c", "import google.protobuf, intervaltree, sortedcontainers, networkx, typing_extensions; print(google.protobuf.__version__)"], capture_output=True, text=True)
    if r.returncode != 0:
        print(r.stderr)
        print("setup: missing third-party dependency in /venv")
        return 1
    from gsim import build

    d = build.build("setup-check")
    r = subprocess.run([PY, "-c", "import sys; sys.path.insert(0, %r); import gtirb; print(gtirb.__file__, gtirb.__version__)" % d], capture_output=True, text=True, env=dict(os.environ, PYTHONDONTWRITEBYTECODE="1"))
    build.clean("setup-check")
    print(r.stdout.strip())
    if r.returncode != 0:
        print(r.stderr)
        return 1
    os.makedirs(os.path.join(VERIF, "evidence"), exist_ok=True)
    os.makedirs(os.path.join(VERIF, "replays"), exist_ok=True)
    print("setup ok (protobuf %s)" % r.stdout.split()[-1])
    return 0


if __name__ == "__main__":
    sys.exit(main())
