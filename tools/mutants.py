#!/usr/bin/env python3
"""Sensitivity self-test: scripted mutants applied to a scratch copy of
/repo's python package (never to /repo). For each mutant: which check catches
it, after how many runs, minimised history length.

usage: tools/mutants.py [--only NAME,...] [--props C03,...] [--runs N] [--tests]
"""
import argparse
import json
import os
import re
import shutil
import subprocess
import sys
import tempfile
import time

VERIF = os.path.dirname(os.path.dirname(os.path.abspath(__file__)))

# name, file (under python/gtirb), old, new, properties expected to catch it
MUTANTS = [
    ("nodeset_discard_keeps_symbol_in_cache", "module.py",
     "            if self._node.ir is not None:\n                v._remove_from_uuid_cache(self._node.ir._local_uuid_cache)\n            return super().discard(v)",
     "            if self._node.ir is not None and not isinstance(v, Symbol):\n                v._remove_from_uuid_cache(self._node.ir._local_uuid_cache)\n            return super().discard(v)",
     ["C03"]),
    ("section_add_keeps_previous_owner", "section.py",
     "            if v._section is not None:\n                v._section.byte_intervals.discard(v)\n            self._node._index_add(v)",
     "            if v._section is not None and len(v._section.byte_intervals) > 2:\n                v._section.byte_intervals.discard(v)\n            self._node._index_add(v)",
     ["C04", "C16", "C03"]),
    ("indexed_attr_no_discard", "util.py",
     "            if parent:\n                parent._index_discard(instance)\n            setattr(instance, self.attribute_name, value)",
     "            setattr(instance, self.attribute_name, value)",
     ["C05", "C06", "C12", "C10"]),
    ("lazytree_replay_ignores_discard", "lazyintervaltree.py",
     "                else:\n                    self._interval_index.discard(interval)",
     "                else:\n                    pass",
     ["C05", "C06", "C12"]),
    ("lazytree_never_rebuild", "lazyintervaltree.py",
     "        elif len(self._value_collection) <= len(self._interval_events):",
     "        elif False:",
     []),  # behaviour preserving: must NOT be caught
    ("lazytree_always_rebuild", "lazyintervaltree.py",
     "        elif len(self._value_collection) <= len(self._interval_events):",
     "        elif True:",
     []),  # behaviour preserving
    ("on_filter_off_by_one", "util.py",
     "        if node_interval.end - 1 <= desired_range.start:",
     "        if node_interval.end - 1 < desired_range.start:",
     ["C05", "C06"]),
    ("at_ignores_step", "util.py",
     "        if bounds.begin in desired_range:",
     "        if desired_range.start <= bounds.begin < desired_range.stop:",
     ["C05", "C06"]),
    ("se_irange_exclusive_start", "byteinterval.py",
     "            addrs.stop - self.address,\n            inclusive=(True, False),",
     "            addrs.stop - self.address,\n            inclusive=(False, False),",
     ["C13"]),
    ("section_extent_ignores_unaddressed", "section.py",
     "        index = self._interval_index.get()\n        if 0 < len(index) == len(self.byte_intervals):\n            return index.begin()",
     "        index = self._interval_index.get()\n        if 0 < len(index):\n            return index.begin()",
     ["C06"]),
    ("symbol_index_add_skips_falsy_name", "module.py",
     "            self._symbol_name_index[node.name].add(node)",
     "            if node.name:\n                self._symbol_name_index[node.name].add(node)",
     ["C10"]),
    ("cfg_add_without_guard", "cfg.py",
     "        if edge not in self:\n            self._nxg.add_edge(edge.source, edge.target, label=edge.label)",
     "        self._nxg.add_edge(edge.source, edge.target, label=edge.label)",
     ["C11"]),
    ("cfg_label_dropped_when_falsy", "cfg.py",
     "            if l:\n                proto_edge.label.type",
     "            if l and (l.conditional or l.direct or l.type.value):\n                proto_edge.label.type",
     ["C01", "C02"]),
    ("has_address_bool", "byteinterval.py",
     "        if self.address is None:\n            proto_interval.has_address = False",
     "        if not self.address:\n            proto_interval.has_address = False",
     ["C01", "C02"]),
    ("symbol_value_written_if_truthy", "symbol.py",
     "        if self.value is not None:\n            proto_symbol.value = self.value",
     "        if self.value:\n            proto_symbol.value = self.value",
     ["C01", "C02"]),
    ("swap_binary_path_name_both_ways", "module.py",
     "            binary_path=proto_module.binary_path,",
     "            binary_path=proto_module.name,",
     ["C02"]),
    ("deep_eq_omits_rebase_delta", "module.py",
     '            "preferred_addr",\n            "rebase_delta",\n        ):',
     '            "preferred_addr",\n        ):',
     ["C18"]),
    ("auxdata_keeps_raw_after_read", "auxdata.py",
     "            self._data = self._lazy_container.get_data()\n            self._lazy_container = None",
     "            self._data = self._lazy_container.get_data()\n            self._lazy_container.raw_data = self._lazy_container._keep",
     ["C14"]),
    ("referent_resolved_to_copy", "symbol.py",
     "            symbol.referent = referent\n",
     "            import copy as _c\n            symbol.referent = _c.copy(referent) if symbol.name == 'b' else referent\n",
     ["C09"]),
    ("int_codec_big_endian_both", "serialization.py",
     'raw_bytes.read(cls.bytesize), byteorder="little", signed=cls.signed',
     'raw_bytes.read(cls.bytesize), byteorder=("big" if cls.bytesize == 2 else "little"), signed=cls.signed',
     ["C08"]),
    ("init_size_setter_no_pad", "byteinterval.py",
     '            self.contents += b"\\0" * (value - len(self.contents))',
     '            self.contents += b"\\0" * max(0, value - len(self.contents) - (1 if value > 6 else 0))',
     ["C19"]),
    ("auxdata_reuses_raw_after_retype", "auxdata.py",
     "        if self._lazy_container is not None and (\n            self.type_name == self._lazy_container.type_name\n        ):",
     "        if self._lazy_container is not None:",
     ["C14"]),
    ("uuid_codec_never_resolves_offsets", "serialization.py",
     "        element_uuid = UUIDCodec.decode(raw_bytes, get_by_uuid=get_by_uuid)",
     "        element_uuid = UUIDCodec.decode(raw_bytes)",
     ["C07", "C09"]),
    ("variant_index_4_bytes", "serialization.py",
     "        out.write(variant.index.to_bytes(8, byteorder=\"little\"))",
     "        out.write(variant.index.to_bytes(8, byteorder=\"little\") if variant.index < 2 else variant.index.to_bytes(8, byteorder=\"big\"))",
     ["C08", "C07"]),
    ("PRESERVING_section_scope_scans_all_intervals", "section.py",
     "        for interval in self.byte_intervals_on(addrs):\n            yield from interval.byte_blocks_on(addrs)",
     "        for interval in self.byte_intervals:\n            yield from interval.byte_blocks_on(addrs)",
     []),  # reports blocks outside their interval's extent: allowed by C05
    ("PRESERVING_sections_written_in_reverse_order", "module.py",
     "        proto_module.sections.extend(s._to_protobuf() for s in self.sections)",
     "        proto_module.sections.extend(s._to_protobuf() for s in reversed(list(self.sections)))",
     []),
    ("PRESERVING_rebuild_threshold_halved", "lazyintervaltree.py",
     "        elif len(self._value_collection) <= len(self._interval_events):",
     "        elif len(self._value_collection) <= 2 * len(self._interval_events):",
     []),
    ("save_swallows_write_errors", "ir.py",
     "        protobuf_file.write(self._to_protobuf().SerializeToString())",
     "        try:\n            protobuf_file.write(self._to_protobuf().SerializeToString())\n        except OSError:\n            pass",
     ["C01"]),
    ("save_path_api_swallows_oserror", "ir.py",
     "        with open(file_name, \"wb\") as f:\n            self.save_protobuf_file(f)",
     "        try:\n            with open(file_name, \"wb\") as f:\n                self.save_protobuf_file(f)\n        except OSError:\n            pass",
     ["C01"]),
    ("PRESERVING_message_built_before_header_is_written", "ir.py",
     "        protobuf_file.write(GTIRB_MAGIC_CHARS)\n",
     "        body = self._to_protobuf().SerializeToString()\n        protobuf_file.write(GTIRB_MAGIC_CHARS)\n",
     []),
    ("loader_skips_entry_point_kind_check", "module.py",
     "            if not isinstance(entry_point, CodeBlock):",
     "            if entry_point is None:",
     ["C17", "C09"]),
]


def apply(scratch, fname, old, new):
    p = os.path.join(scratch, "python", "gtirb", fname)
    s = open(p).read()
    if old not in s:
        return False
    open(p, "w").write(s.replace(old, new, 1))
    return True


def main():
    ap = argparse.ArgumentParser()
    ap.add_argument("--only")
    ap.add_argument("--props")
    ap.add_argument("--runs", type=int, default=600)
    ap.add_argument("--tests", action="store_true", help="also run the repo's 115 tests against each mutant")
    args = ap.parse_args()
    sys.path.insert(0, VERIF)
    registered = set()
    try:
        man = json.load(open(os.path.join(VERIF, "MANIFEST.json")))
        registered = {c["property_id"] for c in man["checks"]}
    except Exception:
        pass
    rows = []
    for name, fname, old, new, props in MUTANTS:
        if args.only and name not in args.only.split(","):
            continue
        scratch = tempfile.mkdtemp(prefix="gsim-mut-")
        try:
            for sub in ("python", "proto", "java"):
                shutil.copytree(os.path.join("/repo", sub), os.path.join(scratch, sub))
            shutil.copy("/repo/version.txt", scratch)
            if name == "auxdata_keeps_raw_after_read":
                apply(scratch, "auxdata.py", "        self.raw_data: Optional[bytes] = raw_data\n", "        self.raw_data: Optional[bytes] = raw_data\n        self._keep = raw_data\n")
                apply(scratch, "auxdata.py", "            self._data = self._lazy_container.get_data()\n            self._lazy_container = None", "            self._data = self._lazy_container.get_data()")
                ok = True
            else:
                ok = apply(scratch, fname, old, new)
            if not ok:
                rows.append((name, "PATTERN-NOT-FOUND", "", ""))
                continue
            tests = ""
            if args.tests:
                env = dict(os.environ, GSIM_REPO=scratch)
                b = subprocess.run([sys.executable, os.path.join(VERIF, "gsim", "build.py"), "mut-tests"], capture_output=True, text=True, env=env).stdout.strip()
                t = subprocess.run(["/venv/bin/python", "-m", "pytest", "-q", "-p", "no:cacheprovider", "-x", "python/tests", "src/test/testInterop"], cwd="/repo", capture_output=True, text=True, env=dict(os.environ, PYTHONPATH=b, PYTHONDONTWRITEBYTECODE="1"))
                tests = t.stdout.strip().splitlines()[-1]
                shutil.rmtree(b, ignore_errors=True)
            check_props = props or (["C01", "C02", "C09"] if "written" in name else ["C05", "C06", "C12", "C13"])
            if args.props:
                check_props = [p for p in args.props.split(",")]
            for p in check_props:
                if registered and p not in registered and not args.props:
                    rows.append((name, p, "not-built-yet", tests))
                    continue
                t0 = time.time()
                cp = subprocess.run([os.path.join(VERIF, "check"), p, "--runs", str(args.runs), "--no-evidence"], capture_output=True, text=True, env=dict(os.environ, GSIM_REPO=scratch))
                out = cp.stdout
                caught = cp.returncode == 1 and "VIOLATION property=%s" % p in out
                m = re.search(r"runs=(\d+)", out)
                mm = re.search(r"minimised to (\d+) operations", out)
                vv = re.search(r"violation: (\S+)", out)
                status = "CAUGHT" if caught else ("clean" if cp.returncode == 0 else "exit%d" % cp.returncode)
                want = "expected-clean" if not props else "expected-caught"
                rows.append((name, p, "%s (%s) runs=%s min_ops=%s check=%s %.0fs" % (status, want, m and m.group(1), mm and mm.group(1), vv and vv.group(1), time.time() - t0), tests))
        finally:
            shutil.rmtree(scratch, ignore_errors=True)
    for r in rows:
        print("%-42s %-4s %s %s" % r)
    # clean replays produced by mutant runs
    for f in os.listdir(os.path.join(VERIF, "replays")):
        if f.endswith(".json"):
            os.remove(os.path.join(VERIF, "replays", f))


if __name__ == "__main__":
    main()
