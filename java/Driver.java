// Batch driver around the repository's Java AuxData codecs (java/com/grammatech/gtirb/auxdatacodec).
// stdin : one table per line  "<id>\t<type name>\t<hex bytes>"
// stdout: "<id>\tOK\t<hex of Java's re-encoding>\t<rendering of the decoded value>"
//       | "<id>\tUNSUPPORTED\t<reason>" | "<id>\tERROR\t<message>"
// Rendering (JSON): ints as decimal (unsigned types rendered unsigned), bool, {"s":hex-of-utf8}, {"f32":hex-le},
// {"uuid":hex32}, {"offset":[hex32,disp]}, [..] sequence, {"set":[..]}, {"map":[[k,v]..]}, {"tuple":[..]}, {"variant":[i,v]}
import com.grammatech.gtirb.Offset;
import com.grammatech.gtirb.auxdatacodec.*;
import com.grammatech.gtirb.tuple.*;
import com.grammatech.gtirb.variant.*;
import java.io.*;
import java.nio.charset.StandardCharsets;
import java.util.*;

@SuppressWarnings({"unchecked", "rawtypes"})
public class Driver {
    static class Unsupported extends Exception { Unsupported(String m) { super(m); } }
    static class TT { String name; List<TT> subs = new ArrayList<>(); }

    static class T1 extends Tuple1<Object> { T1(Object a) { super(a); } }
    static class T2 extends Tuple2<Object, Object> { T2(Object a, Object b) { super(a, b); } }
    static class T3 extends Tuple3<Object, Object, Object> { T3(Object a, Object b, Object c) { super(a, b, c); } }
    static class T4 extends Tuple4<Object, Object, Object, Object> { T4(Object a, Object b, Object c, Object d) { super(a, b, c, d); } }
    static class T5 extends Tuple5<Object, Object, Object, Object, Object> { T5(Object a, Object b, Object c, Object d, Object e) { super(a, b, c, d, e); } }
    static class V2 extends Variant2<Object, Object> {
        V2(Token.T0 t, Object o) { super(t, o); }
        V2(Token.T1 t, Object o) { super(t, o); }
    }
    static class V3 extends Variant3<Object, Object, Object> {
        V3(Token.T0 t, Object o) { super(t, o); }
        V3(Token.T1 t, Object o) { super(t, o); }
        V3(Token.T2 t, Object o) { super(t, o); }
    }

    static class V11 extends Variant11<Object, Object, Object, Object, Object, Object, Object, Object, Object, Object, Object> {
        V11(Token.T0 t, Object o) { super(t, o); }
        V11(Token.T1 t, Object o) { super(t, o); }
        V11(Token.T2 t, Object o) { super(t, o); }
        V11(Token.T3 t, Object o) { super(t, o); }
        V11(Token.T4 t, Object o) { super(t, o); }
        V11(Token.T5 t, Object o) { super(t, o); }
        V11(Token.T6 t, Object o) { super(t, o); }
        V11(Token.T7 t, Object o) { super(t, o); }
        V11(Token.T8 t, Object o) { super(t, o); }
        V11(Token.T9 t, Object o) { super(t, o); }
        V11(Token.T10 t, Object o) { super(t, o); }
    }

    static int pos;
    static TT parse(String s) throws Unsupported {
        pos = 0;
        TT t = parseT(s);
        if (pos != s.length()) throw new Unsupported("bad type name");
        return t;
    }
    static TT parseT(String s) throws Unsupported {
        int st = pos;
        while (pos < s.length() && "<>,".indexOf(s.charAt(pos)) < 0) pos++;
        if (pos == st) throw new Unsupported("bad type name");
        TT t = new TT();
        t.name = s.substring(st, pos);
        if (pos < s.length() && s.charAt(pos) == '<') {
            pos++;
            t.subs.add(parseT(s));
            while (pos < s.length() && s.charAt(pos) == ',') { pos++; t.subs.add(parseT(s)); }
            if (pos >= s.length() || s.charAt(pos) != '>') throw new Unsupported("bad type name");
            pos++;
        }
        return t;
    }

    static Codec build(TT t) throws Unsupported {
        switch (t.name) {
        case "int8_t": return ByteCodec.INT8;
        case "uint8_t": return ByteCodec.UINT8;
        case "int16_t": return ShortCodec.INT16;
        case "uint16_t": return ShortCodec.UINT16;
        case "int32_t": return IntegerCodec.INT32;
        case "uint32_t": return IntegerCodec.UINT32;
        case "int64_t": return LongCodec.INT64;
        case "uint64_t": return LongCodec.UINT64;
        case "bool": return new BoolCodec();
        case "float": return new FloatCodec();
        case "string": return new StringCodec();
        case "UUID": return new UuidCodec();
        case "Offset": return new OffsetCodec();
        case "sequence": return new ListCodec(build(t.subs.get(0)), ArrayList::new);
        case "set": return new SetCodec(build(t.subs.get(0)), LinkedHashSet::new);
        case "mapping": return new MapCodec(build(t.subs.get(0)), build(t.subs.get(1)), LinkedHashMap::new);
        case "tuple":
            switch (t.subs.size()) {
            case 1: return new Tuple1Codec(build(t.subs.get(0)), (a) -> new T1(a));
            case 2: return new Tuple2Codec(build(t.subs.get(0)), build(t.subs.get(1)), (a, b) -> new T2(a, b));
            case 3: return new Tuple3Codec(build(t.subs.get(0)), build(t.subs.get(1)), build(t.subs.get(2)), (a, b, c) -> new T3(a, b, c));
            case 4: return new Tuple4Codec(build(t.subs.get(0)), build(t.subs.get(1)), build(t.subs.get(2)), build(t.subs.get(3)), (a, b, c, d) -> new T4(a, b, c, d));
            case 5: return new Tuple5Codec(build(t.subs.get(0)), build(t.subs.get(1)), build(t.subs.get(2)), build(t.subs.get(3)), build(t.subs.get(4)), (a, b, c, d, e) -> new T5(a, b, c, d, e));
            default: throw new Unsupported("tuple arity " + t.subs.size());
            }
        case "variant":
            switch (t.subs.size()) {
            case 2: return new Variant2Codec(build(t.subs.get(0)), build(t.subs.get(1)), (a) -> new V2(new Token.T0(), a), (b) -> new V2(new Token.T1(), b));
            case 3: return new Variant3Codec(build(t.subs.get(0)), build(t.subs.get(1)), build(t.subs.get(2)), (a) -> new V3(new Token.T0(), a), (b) -> new V3(new Token.T1(), b), (c) -> new V3(new Token.T2(), c));
            case 11: return new Variant11Codec(build(t.subs.get(0)), build(t.subs.get(1)), build(t.subs.get(2)), build(t.subs.get(3)), build(t.subs.get(4)), build(t.subs.get(5)), build(t.subs.get(6)), build(t.subs.get(7)), build(t.subs.get(8)), build(t.subs.get(9)), build(t.subs.get(10)), (x0) -> new V11(new Token.T0(), x0), (x1) -> new V11(new Token.T1(), x1), (x2) -> new V11(new Token.T2(), x2), (x3) -> new V11(new Token.T3(), x3), (x4) -> new V11(new Token.T4(), x4), (x5) -> new V11(new Token.T5(), x5), (x6) -> new V11(new Token.T6(), x6), (x7) -> new V11(new Token.T7(), x7), (x8) -> new V11(new Token.T8(), x8), (x9) -> new V11(new Token.T9(), x9), (x10) -> new V11(new Token.T10(), x10));
            default: throw new Unsupported("variant arity " + t.subs.size());
            }
        default: throw new Unsupported("type " + t.name);
        }
    }

    static String hex(byte[] b) {
        StringBuilder sb = new StringBuilder();
        for (byte x : b) sb.append(String.format("%02x", x & 0xff));
        return sb.toString();
    }
    // A UUID's value is its 16 raw bytes (the Java API maps them to java.util.UUID through two little-endian
    // longs, consistently for node UUIDs and AuxData, so the java.util.UUID number itself is API-internal).
    static String uuidHex(UUID u) { return hex(com.grammatech.gtirb.Util.uuidToByteArray(u)); }

    static String render(Object v, TT t) {
        switch (t.name) {
        case "int8_t": return Integer.toString((Byte)v);
        case "uint8_t": return Integer.toString(((Byte)v) & 0xff);
        case "int16_t": return Integer.toString((Short)v);
        case "uint16_t": return Integer.toString(((Short)v) & 0xffff);
        case "int32_t": return Integer.toString((Integer)v);
        case "uint32_t": return Integer.toUnsignedString((Integer)v);
        case "int64_t": return Long.toString((Long)v);
        case "uint64_t": return Long.toUnsignedString((Long)v);
        case "bool": return ((Boolean)v) ? "true" : "false";
        case "float": {
            int bits = Float.floatToRawIntBits((Float)v);
            byte[] b = {(byte)bits, (byte)(bits >> 8), (byte)(bits >> 16), (byte)(bits >> 24)};
            return "{\"f32\":\"" + hex(b) + "\"}";
        }
        case "string": return "{\"s\":\"" + hex(((String)v).getBytes(StandardCharsets.UTF_8)) + "\"}";
        case "UUID": return "{\"uuid\":\"" + uuidHex((UUID)v) + "\"}";
        case "Offset": { Offset o = (Offset)v; return "{\"offset\":[\"" + uuidHex(o.getElementId()) + "\"," + Long.toUnsignedString(o.getDisplacement()) + "]}"; }
        case "sequence": { StringBuilder sb = new StringBuilder("["); boolean f = true; for (Object x : (List)v) { if (!f) sb.append(","); f = false; sb.append(render(x, t.subs.get(0))); } return sb.append("]").toString(); }
        case "set": { StringBuilder sb = new StringBuilder("{\"set\":["); boolean f = true; for (Object x : (Set)v) { if (!f) sb.append(","); f = false; sb.append(render(x, t.subs.get(0))); } return sb.append("]}").toString(); }
        case "mapping": { StringBuilder sb = new StringBuilder("{\"map\":["); boolean f = true; for (Object e : ((Map)v).entrySet()) { Map.Entry me = (Map.Entry)e; if (!f) sb.append(","); f = false; sb.append("[").append(render(me.getKey(), t.subs.get(0))).append(",").append(render(me.getValue(), t.subs.get(1))).append("]"); } return sb.append("]}").toString(); }
        case "tuple": {
            Object[] xs;
            if (v instanceof T1) xs = new Object[]{((T1)v).get0()};
            else if (v instanceof T2) xs = new Object[]{((T2)v).get0(), ((T2)v).get1()};
            else if (v instanceof T3) xs = new Object[]{((T3)v).get0(), ((T3)v).get1(), ((T3)v).get2()};
            else if (v instanceof T4) xs = new Object[]{((T4)v).get0(), ((T4)v).get1(), ((T4)v).get2(), ((T4)v).get3()};
            else xs = new Object[]{((T5)v).get0(), ((T5)v).get1(), ((T5)v).get2(), ((T5)v).get3(), ((T5)v).get4()};
            StringBuilder sb = new StringBuilder("{\"tuple\":[");
            for (int i = 0; i < xs.length; i++) { if (i > 0) sb.append(","); sb.append(render(xs[i], t.subs.get(i))); }
            return sb.append("]}").toString();
        }
        case "variant": {
            int idx; Object o;
            if (v instanceof V2) { V2 x = (V2)v; idx = x.getIndex(); o = idx == 0 ? x.get0().get() : x.get1().get(); }
            else if (v instanceof V11) { V11 x = (V11)v; idx = x.getIndex(); Object[] os = new Object[]{x.get0(), x.get1(), x.get2(), x.get3(), x.get4(), x.get5(), x.get6(), x.get7(), x.get8(), x.get9(), x.get10()}; o = ((java.util.Optional)os[idx]).get(); }
            else { V3 x = (V3)v; idx = x.getIndex(); o = idx == 0 ? x.get0().get() : (idx == 1 ? x.get1().get() : x.get2().get()); }
            return "{\"variant\":[" + idx + "," + render(o, t.subs.get(idx)) + "]}";
        }
        }
        return "null";
    }

    public static void main(String[] args) throws Exception {
        BufferedReader in = new BufferedReader(new InputStreamReader(System.in, StandardCharsets.UTF_8));
        PrintStream out = new PrintStream(new FileOutputStream(FileDescriptor.out), false, "UTF-8");
        String line;
        while ((line = in.readLine()) != null) {
            String[] p = line.split("\t", -1);
            if (p.length < 3) continue;
            String id = p[0];
            try {
                TT t = parse(p[1]);
                Codec c = build(t);
                byte[] data = new byte[p[2].length() / 2];
                for (int i = 0; i < data.length; i++) data[i] = (byte)Integer.parseInt(p[2].substring(2 * i, 2 * i + 2), 16);
                ByteArrayInputStream bin = new ByteArrayInputStream(data);
                Object v = c.decode(bin);
                if (bin.available() != 0) { out.println(id + "\tERROR\ttrailing bytes: " + bin.available()); continue; }
                if (!c.getTypeName().equals(p[1])) { out.println(id + "\tERROR\ttype name " + c.getTypeName()); continue; }
                ByteArrayOutputStream bout = new ByteArrayOutputStream();
                c.encode(bout, v);
                out.println(id + "\tOK\t" + hex(bout.toByteArray()) + "\t" + render(v, t));
            } catch (Unsupported u) {
                out.println(id + "\tUNSUPPORTED\t" + u.getMessage());
            } catch (Throwable e) {
                out.println(id + "\tERROR\t" + e);
            }
        }
        out.flush();
    }
}
