// Minimal stub so that com.grammatech.gtirb.Util compiles without the protobuf jar
// (only Util.byteStringToUuid / uuidToByteString reference it; the AuxData codecs do not).
package com.google.protobuf;

public final class ByteString {
    public static final ByteString EMPTY = new ByteString(new byte[0]);
    private final byte[] b;
    private ByteString(byte[] b) { this.b = b; }
    public static ByteString copyFrom(byte[] b) { return new ByteString(b.clone()); }
    public byte[] toByteArray() { return b.clone(); }
    public int size() { return b.length; }
    public boolean isEmpty() { return b.length == 0; }
}
