"""Generators for CFG and byte-storage operations (model only)."""
from . import values as V
from .gen_own import pick
from .ops_misc import CfgOp


def gen_label(r):
    x = r.random()
    if x < 0.3:
        return None
    if x < 0.45:
        return ["Branch", False, False]
    return [r.choice(V.EDGE_TYPE), r.random() < 0.5, r.random() < 0.5]


def gen_edge(w, r, ir):
    m = w.m
    from .gen_own import local_pool

    nodes = local_pool(w, r, ir, ("cb", "px"), scope="ir")
    if not nodes:
        return None
    cur = sorted(m.nodes[ir].a["cfg"], key=repr)
    x = r.random()
    if x < 0.35 and cur:
        e = pick(r, cur)
        if r.random() < 0.3:
            return [e[0], e[1], gen_label(r)]  # parallel edge / near miss
        return [e[0], e[1], list(e[2]) if e[2] is not None else None]
    s = pick(r, nodes)
    t = s if r.random() < 0.15 else pick(r, nodes)
    return [s, t, gen_label(r)]


def gen_cfg(w, r, pure=False):
    m = w.m
    ir = pick(r, m.by_kind("ir"))
    if ir is None:
        return None
    if pure:
        meth = r.choice(CfgOp.PURE)
    else:
        meth = r.choices(CfgOp.MUT, weights=[8, 3, 2, 2, 0.5, 3, 2, 2, 1.5, 1.5])[0]
    op = {"op": "cfg", "ir": ir, "method": meth}
    if not pure and w.cfg.get("p_cfg_none_endpoint", 0.0) and r.random() < w.cfg["p_cfg_none_endpoint"]:
        n0 = pick(r, m.by_kind("cb", "px"))
        if n0 is not None:
            return {"op": "cfg", "ir": ir, "method": "add_none", "args": [n0, r.choice(["source", "target"])]}
    if meth in ("add", "discard", "remove", "contains"):
        e = gen_edge(w, r, ir)
        if e is None:
            return None
        op["args"] = [e]
    elif meth in ("update", "ior", "isub", "iand", "ixor", "or", "and", "sub", "xor", "eq", "le", "isdisjoint"):
        es = [e for e in (gen_edge(w, r, ir) for _ in range(r.randrange(0, 4))) if e is not None]
        op["args"] = [es]
        if r.random() < w.cfg.get("p_cfg_object_arg", 0.12):
            # a CFG object as the argument: another IR's, or this very one
            op["cfg_arg"] = ir if r.random() < 0.4 else pick(r, m.by_kind("ir"))
            op["args"] = [[]]
        if meth == "update":
            op["style"] = r.choice(["list", "iter", "set"])
            if es and "cfg_arg" not in op and r.random() < 0.15:
                op["raise_after"] = r.randrange(0, len(es) + 1)
        if meth in ("ior", "isub", "iand", "ixor") and r.random() < 0.2:
            op["style"] = "iter"
        if meth in ("or", "and", "sub", "xor", "eq", "le") and r.random() < 0.4:
            op["reflected"] = True
    elif meth in ("out_edges", "in_edges"):
        n = pick(r, m.by_kind("cb", "px"))
        if n is None:
            return None
        op["args"] = [n]
    else:
        op["args"] = []
    return op


def rbytes(r, n):
    return bytes(r.randrange(256) for _ in range(n)).hex()


def gen_bytes(w, r):
    m = w.m
    bi = pick(r, m.by_kind("bi"))
    if bi is None:
        return None
    n = m.nodes[bi]
    size, cur = n.a["size"], len(n.a["contents"])
    meth = r.choice(["init_size", "init_size", "assign", "edit", "edit_slice"])
    if w.cfg.get("allow_overlong") and size <= 16 and r.random() < 0.25:
        if r.random() < 0.5:
            return {"op": "bytes", "bi": bi, "method": "init_size", "args": [size + r.randrange(1, 4)]}
        return {"op": "bytes", "bi": bi, "method": "assign", "args": [rbytes(r, size + r.randrange(1, 4))], "as": "bytearray"}
    if meth == "init_size":
        hi = min(size, 24)
        v = r.choice([0, cur, min(size, cur + 1), max(0, cur - 1), r.randrange(0, hi + 1), hi])
        return {"op": "bytes", "bi": bi, "method": meth, "args": [v]}
    if meth == "assign":
        k = r.randrange(0, min(size, 12) + 1)
        return {"op": "bytes", "bi": bi, "method": meth, "args": [rbytes(r, k)], "as": r.choice(["bytearray", "bytearray", "bytes"])}
    if meth == "edit":
        if cur == 0:
            return None
        a = r.randrange(0, cur)
        k = r.randrange(0, cur - a + 1)
        return {"op": "bytes", "bi": bi, "method": meth, "args": [a, rbytes(r, k)]}
    a = r.randrange(0, cur + 1)
    b = r.randrange(a, cur + 1)
    room = size - (cur - (b - a))
    k = r.randrange(0, min(room, 6) + 1) if room >= 0 else 0
    return {"op": "bytes", "bi": bi, "method": meth, "args": [a, b, rbytes(r, k)]}
