"""Generators for persistence / peer operations and for healing an IR into a
self-contained state with ordinary API operations. Model only."""
from .gen_own import pick
from .persist import self_contained

PATHS = ["f0", "f1", "f2", "f3p"]


def gen_save(w, r):
    irs = w.m.by_kind("ir")
    ir = pick(r, irs)
    if ir is None:
        return None
    if r.random() < w.cfg.get("p_write_fault", 0.08):
        # the disk fills up / fails in the middle of this save
        if r.random() < 0.25:
            return {"op": "save_fault", "ir": ir, "path": r.choice(PATHS), "fail_after": 0, "devfull": True}
        prev = w.disk.files.get(w.saved_as.get(ir, ""), b"")
        k = r.choice([r.randrange(0, 8), 8 + r.randrange(0, 24), r.randrange(0, max(len(prev), 64))])
        return {"op": "save_fault", "ir": ir, "path": r.choice(PATHS), "fail_after": k, "errno": r.choice(["ENOSPC", "EIO"])}
    return {"op": "save", "ir": ir, "path": r.choice(PATHS), "flavor": r.choice(["path", "stream"])}


def gen_load(w, r):
    ps = sorted(p for p in w.disk.files if p in w.snapshots)
    p = pick(r, ps)
    if p is None:
        return None
    if r.random() < w.cfg.get("p_read_fault", 0.06):
        return {"op": "load_fault", "path": p, "fail_after": r.choice([r.randrange(0, 8), r.randrange(0, max(len(w.disk.files[p]), 1))])}
    w.next_id["twin"] += 1
    return {"op": "load", "path": p, "as": "T%d" % w.next_id["twin"], "flavor": r.choice(["path", "stream"])}


def gen_restart(w, r):
    return {"op": "restart", "flavor": r.choice(["path", "stream"])}


def gen_peer_write(w, r):
    irs = [i for i in w.m.by_kind("ir")]
    ir = pick(r, irs)
    if ir is None:
        return None
    style = {
        "permute": r.random() < 0.8,
        "permute_modules": r.random() < 0.5,
        "explicit_defaults": r.random() < 0.5,
        "stale_address": r.random() < 0.5,
        "vertices": r.choice(["all", "all", "some", "none"]),
        "sweep_enums": r.random() < 0.6,
        "noncanonical": r.random() < 0.5,
        "unknown_tables": r.random() < 0.6,
    }
    return {"op": "peer_write", "from": ir, "path": "pf%d" % r.randrange(3), "seed": r.getrandbits(32), "style": style}


def heal_ops(w, ir):
    """API operations that make `ir` self-contained (drop every reference
    that leaves the IR / its module)."""
    m = w.m
    ops = []
    sub = m.subtree(ir)
    attached = set(sub)
    n = m.nodes[ir]
    cross = w.cfg.get("cross_module_refs", "none")
    order = {ml: i for i, ml in enumerate(n.a["modules"])}

    def bad(ref, frm):
        if ref not in attached:
            return True
        a, b = m.ancestor(ref, "mod"), m.ancestor(frm, "mod")
        if a == b:
            return False
        return not (cross == "backward" and a in order and b in order and order[a] < order[b])

    for e in sorted(n.a["cfg"], key=repr):
        if e[0] not in attached or e[1] not in attached:
            ops.append({"op": "cfg", "ir": ir, "method": "discard", "args": [[e[0], e[1], list(e[2]) if e[2] is not None else None]]})
    for l in sub:
        x = m.nodes[l]
        if x.kind == "mod":
            ep = x.a["entry_point"]
            if ep is not None and bad(ep, l):
                ops.append({"op": "setattr", "label": l, "attr": "entry_point", "value": None})
        elif x.kind == "sym":
            p = x.a["payload"]
            if p is not None and p[0] == "ref" and bad(p[1], l):
                ops.append({"op": "setattr", "label": l, "attr": "referent", "value": None})
        elif x.kind == "bi":
            mod = m.ancestor(l, "mod")
            for off, cell in sorted(x.a["se"].items()):
                s = cell[0]
                syms = [s[2]] if s[0] == "ac" else [s[3], s[4]]
                if not (0 <= off < 2**64) or any(bad(y, l) for y in syms):
                    ops.append({"op": "se", "bi": l, "method": "delitem", "args": [off]})
    if n.a["version"] != 4:
        ops.append({"op": "setattr", "label": ir, "attr": "version", "value": 4})
    return ops


def enrich_ops(w, r, ir):
    """API operations that give `ir` at least one reference of each kind
    (entry point, symbol referent, CFG edges, symbolic expressions), using only
    nodes already attached to it. Model only."""
    from . import values as V
    from .gen_misc import gen_label

    m = w.m
    ops = []
    sub = m.subtree(ir)
    cfgn = [l for l in sub if m.nodes[l].kind in ("cb", "px")]
    earlier_syms = []
    for ml in m.nodes[ir].a["modules"]:
        local = [l for l in m.subtree(ml)]
        cbs = [l for l in local if m.nodes[l].kind == "cb"]
        blocks = [l for l in local if m.nodes[l].kind in ("cb", "db", "px")]
        own_syms = [l for l in local if m.nodes[l].kind == "sym"]
        syms = own_syms
        if w.cfg.get("cross_module_refs", "none") == "backward" and earlier_syms and (not own_syms or r.random() < 0.25):
            syms = earlier_syms  # expressions naming symbols of an earlier module
        earlier_syms = earlier_syms + own_syms
        bis = [l for l in local if m.nodes[l].kind == "bi"]
        if cbs and m.nodes[ml].a["entry_point"] is None and r.random() < 0.8:
            ops.append({"op": "setattr", "label": ml, "attr": "entry_point", "value": cbs[r.randrange(len(cbs))]})
        for s in own_syms:
            if blocks and m.nodes[s].a["payload"] is None and r.random() < 0.6:
                ops.append({"op": "setattr", "label": s, "attr": "referent", "value": blocks[r.randrange(len(blocks))]})
        for b in bis:
            if syms and len(m.nodes[b].a["se"]) < 2 and r.random() < 0.6:
                s1, s2 = syms[r.randrange(len(syms))], syms[r.randrange(len(syms))]
                spec = ["ac", V.i64(r), s1, []] if r.random() < 0.5 else ["aa", V.i64(r), V.i64(r), s1, s2, [r.choice(V.SE_ATTRS)]]
                ops.append({"op": "se", "bi": b, "method": "setitem", "args": [V.small(r, 12), spec]})
    for _ in range(3):
        if cfgn and len(m.nodes[ir].a["cfg"]) < 4:
            ops.append({"op": "cfg", "ir": ir, "method": "add", "args": [[cfgn[r.randrange(len(cfgn))], cfgn[r.randrange(len(cfgn))], gen_label(r)]]})
    return ops
