"""Generators for construction / ownership / attribute operations. They read
the MODEL only (ordered by label creation), never the implementation."""
from . import values as V
from .ops_own import MUTATING_SET, PURE_SET, SetAttr
from .world import FIELDS, PARENT_OF, SET_FIELDS

MAXN = {"ir": 3, "mod": 6, "sec": 7, "bi": 9, "cb": 10, "db": 8, "px": 6, "sym": 10}
CHILD_KINDS = {"ir": ("mod",), "mod": ("sec", "sym", "px"), "sec": ("bi",), "bi": ("cb", "db")}


def pick(r, xs):
    return xs[r.randrange(len(xs))] if xs else None


def local_pool(w, r, anchor, kinds, scope="mod"):
    """Candidates of `kinds`; with cfg prefer_local_refs, mostly those in the
    same module (or IR) as `anchor`."""
    m = w.m
    pool = m.by_kind(*kinds)
    if anchor is not None and w.cfg.get("prefer_local_refs") and r.random() < 0.85:
        a = m.ancestor(anchor, scope) if anchor in m.nodes else None
        if a is not None:
            loc = [l for l in pool if m.ancestor(l, scope) == a]
            if loc:
                return loc
    return pool


def gen_attrs(w, r, kind):
    cfg = w.cfg
    m = w.m
    if kind == "mod":
        a = {"name": V.name(r)}
        if r.random() < 0.5:
            a["binary_path"] = V.name(r)
        if r.random() < 0.5:
            a["isa"] = r.choice(V.ISA)
        if r.random() < 0.5:
            a["file_format"] = r.choice(V.FILE_FORMAT)
        if r.random() < 0.5:
            a["byte_order"] = r.choice(V.BYTE_ORDER)
        if r.random() < 0.5:
            a["preferred_addr"] = V.u64(r)
        if r.random() < 0.5:
            a["rebase_delta"] = V.i64(r)
        return a
    if kind == "sec":
        a = {}
        if r.random() < 0.8:
            a["name"] = V.name(r)
        if r.random() < 0.6:
            a["flags"] = sorted(set(r.choice(V.SECTION_FLAGS) for _ in range(r.randrange(0, 4))))
        return a
    if kind == "bi":
        a = {}
        ad = V.addr(r, cfg)
        if ad is not None or r.random() < 0.3:
            a["address"] = ad
        n = r.choice([0, 0, 1, 2, 4, 7])
        if cfg.get("contents", True) and n:
            a["contents"] = bytes(r.randrange(256) for _ in range(n)).hex()
        if r.random() < 0.8:
            a["size"] = max(n, V.size(r, cfg)) if r.random() < 0.9 else n
        return a
    if kind in ("cb", "db"):
        a = {}
        if r.random() < 0.8:
            a["offset"] = V.small(r, cfg.get("off_hi", 14)) if r.random() < 0.93 else V.u64(r, 1.0)
        if r.random() < 0.8:
            a["size"] = V.size(r, cfg)
        if kind == "cb" and r.random() < 0.3:
            a["decode_mode"] = r.choice(V.DECODE_MODE)
        return a
    if kind == "sym":
        a = {"name": V.name(r)}
        if r.random() < 0.3:
            a["at_end"] = r.random() < 0.5
        x = r.random()
        if x < 0.3:
            blocks = m.by_kind("cb", "db", "px")
            if blocks:
                a["payload"] = ["ref", pick(r, blocks)]
        elif x < 0.5:
            a["payload"] = ["int", r.choice([0, 0, 1, V.u64(r)])]
        return a
    return {}


def gen_new(w, r, kinds=None):
    m = w.m
    kinds = kinds or list(MAXN)
    cands = [k for k in kinds if sum(1 for l in m.by_kind(k) if "." not in l) < w.cfg.get("max_" + k, MAXN[k])]
    wts = w.cfg.get("kind_weights", {})
    cands = [k for k in cands if wts.get(k, 1.0) > 0]
    if not cands:
        return None
    kind = r.choices(cands, weights=[wts.get(k, 1.0) for k in cands])[0]
    op = {"op": "new", "kind": kind, "label": w.fresh(kind)}
    if kind != "ir" and r.random() < w.cfg.get("p_user_subclass", 0.04):
        op["subclass"] = True
    if r.random() < w.cfg.get("p_explicit_uuid", 0.85):
        op["uuid"] = r.getrandbits(128)
        if r.random() < 0.03:
            # the edge values of the UUID space (a caller may supply any UUID): nil and max
            op["uuid"] = r.choice([0, 0, (1 << 128) - 1, 1])
    else:
        op["uuid"] = None
    op["attrs"] = gen_attrs(w, r, kind)
    if kind != "ir" and r.random() < w.cfg.get("p_ctor_parent", 0.5):
        ps = m.by_kind(PARENT_OF[kind][0])
        if ps and r.random() < w.cfg.get("p_attached_parent", 0.0):
            att = [p for p in ps if m.ir_of(p) is not None]
            ps = att or ps
        if ps:
            op["parent"] = pick(r, ps)
    if kind in CHILD_KINDS and r.random() < w.cfg.get("p_ctor_kids", 0.25):
        kids = {}
        for field, ckinds in FIELDS[kind].items():
            pool = m.by_kind(*ckinds)
            if pool and r.random() < 0.6:
                k = r.randrange(1, min(3, len(pool)) + 1)
                kids[field] = r.sample(pool, k)
        if kids and r.random() < w.cfg.get("p_wrapper_arg", 0.2):
            # hand over another owner's whole collection: Module(sections=other.sections)
            f = sorted(kids)[0]
            owners = [l for l in m.by_kind(kind) if m.kids(l, f)]
            if owners:
                op["kids_from"] = {f: pick(r, owners)}
                lz = r.choice([None, None, "iter", "gen"])
                if lz:
                    op["kids_from_lazy"] = lz
                kids = {}
        if kids:
            op["kids"] = kids
            op["kids_style"] = r.choice(["list", "tuple", "iter"])
    return op


def gen_setparent(w, r):
    m = w.m
    cs = [l for l in m.nodes if m.nodes[l].kind != "ir"]
    c = pick(r, cs)
    if c is None:
        return None
    if r.random() < w.cfg.get("p_detach", 0.25):
        return {"op": "setparent", "child": c, "parent": None}
    ps = m.by_kind(PARENT_OF[m.nodes[c].kind][0])
    if ps and r.random() < w.cfg.get("p_attached_parent", 0.0):
        att = [p for p in ps if m.ir_of(p) is not None]
        ps = att or ps
    p = pick(r, ps)
    return {"op": "setparent", "child": c, "parent": p}


def _elem_pool(w, r, P, field, n, junk_ok=False):
    """Draw n elements from members, free nodes and nodes owned elsewhere."""
    m = w.m
    kinds = FIELDS[m.nodes[P].kind][field]
    members = m.kids(P, field)
    pool = m.by_kind(*kinds)
    out = []
    for _ in range(n):
        x = r.random()
        if junk_ok and x < 0.1:
            out.append(r.randrange(0, 3))
        elif junk_ok and x < 0.2:
            # a node that can never be a member: of another kind, preferably one that lives in a
            # SIBLING collection of the same owner (m.symbols.discard(<proxy of m>))
            sib = [k for k in m.kids(P) if k not in members]
            anyn = [l for l in m.nodes if m.nodes[l].kind not in kinds]
            c = pick(r, sib) if sib and r.random() < 0.7 else pick(r, anyn)
            if c is not None:
                out.append(c)
        elif x < 0.45 and members:
            out.append(pick(r, members))
        elif pool:
            out.append(pick(r, pool))
    return out


def _lazy_view(w, r, a):
    """Sometimes the other owning collection is not passed itself but through a
    lazily evaluated view: iter(c), (x for x in c), (x for x in c if cond)."""
    from .ops_own import wrap_items

    k = r.random()
    if k < 0.5:
        return a
    if k < 0.65:
        a["lazy"] = "iter"
    else:
        a["lazy"] = "gen"
        if k > 0.8:
            ks = wrap_items(w.m, a)
            a["only"] = [x for x in ks if r.random() < 0.6]
    return a


def gen_setop(w, r, pure=False):
    m = w.m
    cands = []
    for pk, field in SET_FIELDS:
        for l in m.by_kind(pk):
            cands.append((l, field))
    if not cands:
        return None
    P, field = pick(r, cands)
    if pure:
        meth = r.choice(PURE_SET)
    else:
        meth = r.choices(
            MUTATING_SET,
            weights=[6, 3, 2, 2, 1, 4, 2, 2, 2, 2],
        )[0]
    op = {"op": "setop", "parent": P, "field": field, "method": meth}
    if meth == "add":
        xs = _elem_pool(w, r, P, field, 1)
        if not xs:
            return None
        op["args"] = xs
    elif meth in ("discard", "remove", "contains"):
        xs = _elem_pool(w, r, P, field, 1, junk_ok=True)
        if not xs:
            return None
        op["args"] = xs
    elif meth in ("pop", "clear", "len", "iter"):
        op["args"] = []
    elif meth == "update":
        k = r.choice([0, 1, 1, 2, 3])
        args = []
        for _ in range(k):
            args.append(_elem_pool(w, r, P, field, r.randrange(0, 4)))
        others = [(l, f) for (l, f) in cands if f == field and l != P]
        if r.random() < 0.1:
            others = [(P, field)]  # s.update(s)
        if others and r.random() < w.cfg.get("p_wrapper_arg", 0.2):
            q = pick(r, others)
            args.insert(r.randrange(len(args) + 1), _lazy_view(w, r, {"wrapper": [q[0], q[1]]}))
        elif args and r.random() < w.cfg.get("p_raising_iter", 0.12):
            items = args.pop()
            items = items or _elem_pool(w, r, P, field, 2)
            args.append({"items": items, "raise_after": r.randrange(0, len(items) + 1)})
            earlier = [x for a in args[:-1] if isinstance(a, list) for x in a if isinstance(x, str)]
            if earlier and field == "blocks" and r.random() < 0.6:
                # ... and afterwards an element of an EARLIER argument is edited (whoever owns it now)
                w.queue.append({"op": "setattr", "label": earlier[r.randrange(len(earlier))], "attr": r.choice(["offset", "size"]), "value": r.randrange(0, 12)})
                if w.cfg.get("lookup_mode") is not None:
                    # index profiles: the destination is looked up before (index built) and after
                    lk = {"op": "lookup", "scope": P, "method": "byte_blocks_on_offset", "q": [0, 40, 1]}
                    w.queue.append(dict(lk))
                    op["args"] = args
                    op["style"] = r.choice(["list", "tuple", "iter"])
                    w.queue.insert(0, op)
                    return lk
        op["args"] = args
        op["style"] = r.choice(["list", "tuple", "iter"])
    elif meth in ("ior", "ixor", "isub", "iand") and r.random() < w.cfg.get("p_wrapper_arg", 0.2):
        # the other owning collection itself as the argument ("move everything over")
        others = [(l, f) for (l, f) in cands if f == field and l != P]
        if r.random() < 0.15:
            others = [(P, field)]  # s |= s, s -= s, s &= s, s ^= s
        q = pick(r, others)
        if q is None:
            return None
        op["args"] = [{"wrapper": [q[0], q[1]]}]
    elif meth in ("ior", "ixor"):
        op["args"] = [_elem_pool(w, r, P, field, r.randrange(0, 4))]
    elif meth in ("isub", "iand"):
        op["args"] = [_elem_pool(w, r, P, field, r.randrange(0, 4), junk_ok=True)]
    else:
        # pure binary operators / comparisons
        if r.random() < 0.25:
            pk = m.nodes[P].kind
            others = [(l, f) for (l, f) in cands if f == field]
            q = pick(r, others)
            op["args"] = [{"wrapper": [q[0], q[1]]}]
        else:
            op["args"] = [_elem_pool(w, r, P, field, r.randrange(0, 4), junk_ok=True)]
        if meth in ("eq", "ne", "le", "lt", "ge", "gt") and r.random() < 0.4:
            op["reflected"] = True
    return op


def _idx(r, n):
    x = r.random()
    if x < 0.03:
        return r.choice(["x", None, 1.5])  # no index at all: the built-in raises TypeError and changes nothing
    if x < 0.7 and n:
        return r.randrange(-n, n)
    return r.choice([0, -1, n, n + 1, -n - 1, 5, -5])


def _slc(r, n):
    def b():
        return r.choice([None, None, 0, 1, -1, n, r.randrange(-n - 1, n + 2)])

    return [b(), b(), r.choice([None, None, None, 1, 2, -1, -2, 3])]


def gen_listop(w, r, pure=False):
    m = w.m
    irs = m.by_kind("ir")
    I = pick(r, irs)
    if I is None:
        return None
    mods = m.by_kind("mod")
    cur = m.nodes[I].a["modules"]
    n = len(cur)

    def mod():
        x = r.random()
        if x < 0.3 and cur:
            return pick(r, cur)
        return pick(r, mods)

    def mods_list(k):
        return [x for x in (mod() for _ in range(k)) if x is not None]

    if pure:
        meth = r.choice(["index", "count", "getitem", "getslice", "len", "contains", "iter", "reversed"])
    else:
        meth = r.choices(
            ["insert", "append", "extend", "iadd", "pop", "remove", "delitem", "delslice", "setitem", "setslice", "reverse", "clear"],
            weights=[4, 4, 3, 2, 2, 2, 2, 2, 3, 3, 2, 1],
        )[0]
    op = {"op": "listop", "ir": I, "method": meth}
    if not pure and r.random() < 0.04:
        # an iterator over the list is live while the list changes size through another route
        if cur and r.random() < 0.5:
            return {"op": "listop", "ir": I, "method": "iter_mutate", "args": [r.randrange(0, n + 1), 0, pick(r, cur)]}
        free = [x for x in mods if x not in cur and m.nodes[x].parent is None]
        if free:
            return {"op": "listop", "ir": I, "method": "iter_mutate", "args": [r.randrange(0, n + 1), 1, pick(r, free)]}
    if meth == "insert":
        x = mod()
        if x is None:
            return None
        op["args"] = [_idx(r, n), x]
    elif meth in ("append", "remove", "index", "count", "contains"):
        x = mod()
        if x is None:
            return None
        op["args"] = [x]
        if meth == "index" and r.random() < 0.5:
            # index(value, start[, stop]) with bounds around both ends, 0 and negatives included
            op["args"].append(r.randrange(-n - 1, n + 2))
            if r.random() < 0.6:
                op["args"].append(r.randrange(-n - 1, n + 2))
    elif meth in ("extend", "iadd") and len(irs) > 1 and r.random() < w.cfg.get("p_wrapper_arg", 0.2):
        op["args"] = [_lazy_view(w, r, {"from_ir": pick(r, [x for x in irs if x != I])})]
    elif meth in ("extend", "iadd"):
        items = mods_list(r.randrange(0, 4))
        a = {"items": items, "style": r.choice(["list", "tuple", "iter"])}
        if meth == "extend" and r.random() < w.cfg.get("p_raising_iter", 0.12):
            a["raise_after"] = r.randrange(0, len(items) + 1)
        op["args"] = [a]
    elif meth == "pop":
        op["args"] = [] if r.random() < 0.4 else [_idx(r, n)]
    elif meth in ("delitem", "getitem"):
        op["args"] = [_idx(r, n)]
    elif meth in ("delslice", "getslice"):
        s = _slc(r, n)
        if s[2] == 0:
            s[2] = None
        op["args"] = [s]
    elif meth == "setitem":
        x = mod()
        if x is None:
            return None
        op["args"] = [_idx(r, n), x]
    elif meth == "setslice":
        s = _slc(r, n)
        if len(irs) > 1 and r.random() < w.cfg.get("p_wrapper_arg", 0.2) * 0.5:
            # ir.modules[a:b] = other_ir.modules (or a lazy view of it)
            op["args"] = [s, _lazy_view(w, r, {"from_ir": pick(r, [x for x in irs if x != I])})]
            return op
        items = mods_list(r.randrange(0, 4))
        a = {"items": items, "style": r.choice(["list", "tuple", "iter"])}
        if r.random() < 0.08:
            a["raise_after"] = r.randrange(0, len(items) + 1)
        op["args"] = [s, a]
    else:
        op["args"] = []
    return op


def gen_setattr(w, r, kinds=None, attrs=None):
    m = w.m
    cands = [l for l, n in m.nodes.items() if n.kind in SetAttr.ATTRS and (kinds is None or n.kind in kinds)]
    l = pick(r, cands)
    if l is None:
        return None
    k = m.nodes[l].kind
    pool = [a for a in SetAttr.ATTRS[k] if attrs is None or a in attrs]
    if k == "ir":
        if not w.cfg.get("allow_ir_version"):
            return None
        # IR.version is an ordinary attribute; a save writes it into the message while the header
        # byte stays the protobuf version of this API (such a file is rejected on load)
        return {"op": "setattr", "label": l, "attr": "version", "value": r.choice([3, 4, 4, 5, 0, 1, 2**32 - 1])}
    if not pool:
        return None
    attr = r.choice(pool)
    cfg = w.cfg
    if attr in ("name", "binary_path"):
        v = V.name(r)
    elif attr == "isa":
        v = r.choice(V.ISA)
    elif attr == "file_format":
        v = r.choice(V.FILE_FORMAT)
    elif attr == "byte_order":
        v = r.choice(V.BYTE_ORDER)
    elif attr == "preferred_addr":
        v = V.u64(r)
    elif attr == "rebase_delta":
        v = V.i64(r)
    elif attr == "entry_point":
        v = pick(r, local_pool(w, r, l, ("cb",))) if r.random() < 0.8 else None
    elif attr == "flags":
        v = sorted(set(r.choice(V.SECTION_FLAGS) for _ in range(r.randrange(0, 4))))
    elif attr in ("flag_add", "flag_discard"):
        v = r.choice(V.SECTION_FLAGS)
    elif attr == "address":
        v = V.addr(r, cfg)
        if r.random() < cfg.get("p_addr_negative", 0.0):
            v = -r.randrange(1, 24)  # outside the schema's range; the in-memory API takes any int today
    elif attr == "size" and k == "bi":
        cur = len(m.nodes[l].a["contents"])
        v = V.size(r, cfg)
        if not cfg.get("allow_shrink", False):
            v = max(v, cur)
    elif attr == "size":
        v = V.size(r, cfg)
    elif attr == "offset":
        v = V.small(r, cfg.get("off_hi", 14)) if r.random() < 0.93 else V.u64(r, 1.0)
    elif attr == "decode_mode":
        v = r.choice(V.DECODE_MODE)
    elif attr == "at_end":
        v = r.random() < 0.5
    elif attr == "referent":
        v = pick(r, local_pool(w, r, l, ("cb", "db", "px"))) if r.random() < 0.85 else None
    elif attr == "value":
        v = r.choice([0, 1, None, V.u64(r)])
    else:
        return None
    return {"op": "setattr", "label": l, "attr": attr, "value": v}
