"""gsim core: PRNG streams, violations, watchdog, seams (uuid4, set iteration
order), simulated disk.

Everything random in a run derives from (seed, run, stream-name); logging never
draws from any stream.
"""
import hashlib
import io
import json
import random
import signal
import uuid as _uuid


# --------------------------------------------------------------------------
# PRNG streams


def stream(seed, run, name):
    h = hashlib.sha256(("%s/%s/%s" % (seed, run, name)).encode()).digest()
    return random.Random(int.from_bytes(h[:16], "big"))


class Streams:
    NAMES = ("config", "ops", "values", "uuid", "order", "lookups", "faults", "peer")

    def __init__(self, seed, run):
        self.seed, self.run = seed, run
        self._s = {}

    def __getattr__(self, name):
        if name.startswith("_") or name in ("seed", "run"):
            raise AttributeError(name)
        s = self._s.get(name)
        if s is None:
            s = self._s[name] = stream(self.seed, self.run, name)
        return s


# --------------------------------------------------------------------------
# Outcomes


class Violation(Exception):
    """A property violation detected by an oracle of the property under
    check."""

    def __init__(self, prop, check, detail):
        super().__init__("%s/%s: %s" % (prop, check, detail))
        self.prop, self.check, self.detail = prop, check, detail


class Diverged(Exception):
    """The implementation left the reference model in a way that is *not* the
    business of the property under check. The run is cut short; no verdict."""


class WatchdogTimeout(BaseException):
    pass


class EndOfDomain(Exception):
    """An operation outside every statement's domain was ACCEPTED by the implementation
    (today's behaviour): the world is outside the domain from here on, the run ends without
    a verdict. Had it been refused, the run would go on and check that the refusal was clean."""


class SimFault(Exception):
    """Raised by harness-provided iterables to simulate a failure in the
    middle of a bulk operation."""


# --------------------------------------------------------------------------
# Watchdog: CPU-time alarm around calls into the system under test.


class Watchdog:
    def __init__(self, seconds=5.0):
        self.seconds = seconds
        self.fired = 0
        try:
            signal.signal(signal.SIGVTALRM, self._fire)
            self.ok = True
        except (ValueError, OSError):  # not main thread
            self.ok = False

    def _fire(self, signum, frame):
        self.fired += 1
        raise WatchdogTimeout()

    def __enter__(self):
        if self.ok:
            signal.setitimer(signal.ITIMER_VIRTUAL, self.seconds)
        return self

    def __exit__(self, *exc):
        if self.ok:
            signal.setitimer(signal.ITIMER_VIRTUAL, 0)
        return False


# --------------------------------------------------------------------------
# Seams


class Seams:
    """Owns the uuid4 seam and the set-iteration-order seam of one worker
    process. `install(g)` patches the built gtirb package; `bind(streams,
    mode)` attaches them to the current run."""

    ORDER_MODES = ("sorted", "reverse", "shuffle", "rotate")

    def __init__(self):
        self.uuid_rng = None
        self.order_rng = None
        self.mode = "sorted"
        self.observe = 0  # >0: harness is observing: canonical, draw nothing
        self.order_available = False
        self.uuid_available = False
        self.iter_calls = 0
        self.permuted_calls = 0

    def install(self, g):
        seams = self
        node_mod = g.node
        if hasattr(node_mod, "uuid4"):

            def sim_uuid4():
                if seams.uuid_rng is None:
                    return _uuid.uuid4()
                return _uuid.UUID(int=seams.uuid_rng.getrandbits(128), version=4)

            node_mod.uuid4 = sim_uuid4
            self.uuid_available = True
        # Nodes hash by address by default, so every PLAIN set of nodes the library or a caller
        # builds (AuxData values, set().union(...) inside a bulk operation, networkx internals)
        # iterates in an order that differs from process to process. Hash by UUID instead:
        # equality stays identity, so this is a legal hash, and UUIDs come from the seeded seam
        # or from the recorded operations. Only installed while no class in the hierarchy
        # defines __hash__ / __eq__ itself.
        self.hash_available = False
        N = getattr(node_mod, "Node", None)
        if N is not None and "__hash__" not in N.__dict__ and "__eq__" not in N.__dict__:

            import weakref

            fixed = {}  # id(node) -> hash, for the lifetime of the node

            def sim_hash(self_):
                # The value must never change while the object lives: copy.deepcopy and pickle
                # put a half-restored node (no uuid yet) into its parent's set and restore its
                # state afterwards. So the first answer is kept (by-address only for such
                # half-built copies; their sets are iterated through the order seam anyway).
                k = id(self_)
                h = fixed.get(k)
                if h is None:
                    try:
                        h = hash(self_.uuid.int)
                    except Exception:
                        h = k >> 4
                    fixed[k] = h
                    try:
                        weakref.finalize(self_, fixed.pop, k, None)
                    except TypeError:
                        pass
                return h

            N.__hash__ = sim_hash
            self.hash_available = True
        SW = getattr(g.util, "SetWrapper", None)
        if SW is not None and "__iter__" in SW.__dict__:
            probe = SW()
            if isinstance(getattr(probe, "_data", None), set):

                def sim_iter(self_):
                    try:
                        items = sorted(self_._data, key=_uuid_key)
                    except Exception:
                        return iter(self_._data)
                    seams.iter_calls += 1
                    if seams.observe:
                        return iter(items)
                    if seams.order_rng is None or len(items) < 2 or seams.mode == "sorted":
                        return _guarded(self_._data, items)
                    m = seams.mode
                    seams.permuted_calls += 1
                    if m == "reverse":
                        items.reverse()
                    elif m == "shuffle":
                        seams.order_rng.shuffle(items)
                    elif m == "rotate":
                        k = seams.order_rng.randrange(len(items))
                        items = items[k:] + items[:k]
                    return _guarded(self_._data, items)

                SW.__iter__ = sim_iter
                self.order_available = True

        self.install_probes(g)

    def install_probes(self, g):
        """Optional reach probes around LazyIntervalTree.get (which of the
        three branches ran). Missing internals = missing counter, never a
        failure."""
        self.branch = {}
        self.branch_seq = []
        self.probe_available = False
        try:
            LT = g.lazyintervaltree.LazyIntervalTree
            orig = LT.get
            seams = self

            def probed_get(self_):
                try:
                    if self_._interval_index is None:
                        b = "build"
                    else:
                        nv, ne = len(self_._value_collection), len(self_._interval_events)
                        if ne == 0:
                            b = "clean"
                        elif nv < ne:
                            b = "rebuild(pending>size)"
                        elif nv == ne:
                            b = "rebuild(pending==size)"
                        else:
                            b = "incremental(pending<size)"
                    seams.branch[b] = seams.branch.get(b, 0) + 1
                    if not seams.observe and len(seams.branch_seq) < 4096:
                        seams.branch_seq.append(b[0])
                except Exception:
                    pass
                return orig(self_)

            LT.get = probed_get
            self.probe_available = True
        except Exception:
            pass

    def bind(self, streams, mode):
        self.uuid_rng = streams.uuid if streams is not None else None
        self.order_rng = streams.order if streams is not None else None
        self.mode = mode if self.order_available else "sorted"
        self.observe = 0
        self.branch = {}
        self.branch_seq = []

    class _Obs:
        def __init__(self, s):
            self.s = s

        def __enter__(self):
            self.s.observe += 1

        def __exit__(self, *a):
            self.s.observe -= 1
            return False

    def observing(self):
        return Seams._Obs(self)


def _uuid_key(n):
    return n.uuid.int


def _guarded(data, items):
    """Iterate the (re-ordered) snapshot, but fail exactly like the native set
    iterator when the underlying set changes size during the iteration: the
    order seam must not hide 'Set changed size during iteration'."""
    n = len(data)
    for x in items:
        if len(data) != n:
            raise RuntimeError("Set changed size during iteration")
        yield x
    if len(data) != n:
        raise RuntimeError("Set changed size during iteration")


# --------------------------------------------------------------------------
# Simulated disk


class SimFile(io.BytesIO):
    """Buffered-stream semantics; records the chunk sequence of writes. On
    close the content becomes durable on the owning disk."""

    def __init__(self, disk, path, mode, initial=b""):
        super().__init__(initial if "r" in mode else b"")
        self._disk, self._path, self._mode = disk, path, mode
        self.chunks = []

    def write(self, b):
        self.chunks.append(bytes(b))
        return super().write(b)

    def close(self):
        if not self.closed and "w" in self._mode:
            self._disk.files[self._path] = self.getvalue()
            self._disk.chunks[self._path] = list(self.chunks)
        super().close()


class SimDisk:
    def __init__(self):
        self.files = {}  # path -> durable bytes
        self.chunks = {}  # path -> write chunk list of the last save
        self.opens = 0

    def open(self, path, mode="rb", *a, **k):
        path = str(path)
        self.opens += 1
        if "r" in mode:
            if path not in self.files:
                raise FileNotFoundError(path)
            return SimFile(self, path, mode, self.files[path])
        return SimFile(self, path, mode)


# --------------------------------------------------------------------------
# Event log


class EventLog:
    trace = None  # debugging aid: set to a list to record every event line

    def __init__(self):
        self.h = hashlib.sha256()
        self.n = 0
        self.tail = []

    def add(self, rec):
        s = json.dumps(rec, sort_keys=True, separators=(",", ":"), default=str)
        if EventLog.trace is not None:
            EventLog.trace.append(s)
        self.h.update(s.encode())
        self.h.update(b"\n")
        self.n += 1
        self.tail.append(s)
        if len(self.tail) > 40:
            del self.tail[0]

    def digest(self):
        return self.h.hexdigest()
