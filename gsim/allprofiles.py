"""Import every profile/op module so that the registries are complete."""
from . import ops_own, ops_se, ops_index, ops_misc, ops_aux, persist, peer  # noqa
from . import profiles, profile_c12, profile_c17, profile_c18  # noqa
