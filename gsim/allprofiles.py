"""Import every profile module so that REGISTRY is complete."""
from . import profiles  # noqa
