"""Persistence: save / load / restart as ordinary generated operations over the
simulated disk, with the oracles that ride on them:

  C02 (writer)  message parsed from the bytes on disk == model, field by field
  C01           loaded IR == snapshot model; deep_eq both ways; re-save equal
  C02 (reader)  loaded attributes == message fields (peer- or gtirb-written)
  C09           every reference in a loaded IR is the attached object itself
  C14/C08       AuxData entries of the written message (see ops_aux)
"""
import io
import uuid as _uuid

from . import refcodec as R
from .core import Diverged
from .observe import model_view
from .ops import OPS, Exp, Op, Out, capture, register
from .oracle_own import compare_model
from .world import FIELDS, MNode

# Python enum member name -> schema constant name (read off the API docs)
SCHEMA_NAME = {
    "isa": lambda n: "ISA_Undefined" if n == "Undefined" else n,
    "file_format": lambda n: "Format_Undefined" if n == "Undefined" else n,
    "byte_order": lambda n: {"Undefined": "ByteOrder_Undefined", "Big": "BigEndian", "Little": "LittleEndian"}[n],
    "flags": lambda n: "Section_Undefined" if n == "Undefined" else n,
    "decode_mode": lambda n: {"Default": "All_Default", "Thumb": "ARM_Thumb"}[n],
    "edge_type": lambda n: "Type_" + n,
    "se_attr": lambda n: n,
}
ENUM_DESC = {
    "isa": ("Module_pb2", "ISA"),
    "file_format": ("Module_pb2", "FileFormat"),
    "byte_order": ("Module_pb2", "ByteOrder"),
    "flags": ("Section_pb2", "SectionFlag"),
    "decode_mode": ("CodeBlock_pb2", "DecodeMode"),
    "edge_type": ("CFG_pb2", "EdgeType"),
    "se_attr": ("SymbolicExpression_pb2", "SymAttribute"),
}


def enum_number(w, which, py_name):
    mod, en = ENUM_DESC[which]
    d = getattr(getattr(w.g.proto, mod), en).DESCRIPTOR
    return d.values_by_name[SCHEMA_NAME[which](py_name)].number


def se_attr_number(w, a):
    return a if isinstance(a, int) else enum_number(w, "se_attr", a)


# ---------------------------------------------------------------------------
# model predicates and snapshots


def self_contained(m, ir, cross="none"):
    """C01's precondition, evaluated on the model. cross="none": symbol referents, entry
    points and expression symbols stay inside their module (C01's wording). cross="backward":
    they may also name nodes of a module EARLIER in the module list - files gtirb's staged
    decoder loads too ("any loadable file", C02 reader / C09 / C17)."""
    sub = m.subtree(ir)
    attached = set(sub)
    n = m.nodes[ir]
    order = {ml: i for i, ml in enumerate(n.a["modules"])}

    def ok(ref, frm):
        """may node `frm` refer to node `ref`?"""
        if ref not in attached:
            return False
        a, b = m.ancestor(ref, "mod"), m.ancestor(frm, "mod")
        if a == b:
            return True
        return cross == "backward" and a in order and b in order and order[a] < order[b]

    if n.a["version"] != 4:
        return False
    uu = [m.nodes[l].uuid for l in sub]
    if len(set(uu)) != len(uu):
        return False
    for s, t, _ in n.a["cfg"]:
        if s not in attached or t not in attached:
            return False
    for l in sub:
        x = m.nodes[l]
        if x.kind == "mod":
            ep = x.a["entry_point"]
            if ep is not None and not ok(ep, l):
                return False
        elif x.kind == "sym":
            p = x.a["payload"]
            if p is not None and p[0] == "ref":
                if not ok(p[1], l):
                    return False
            if p is not None and p[0] == "int" and not (0 <= p[1] < 2**64):
                return False
        elif x.kind == "bi":
            mod = m.ancestor(l, "mod")
            for off, cell in x.a["se"].items():
                if not (0 <= off < 2**64):
                    return False
                spec = cell[0]
                for s in ([spec[2]] if spec[0] == "ac" else [spec[3], spec[4]]):
                    if not ok(s, l):
                        return False
            if len(x.a["contents"]) > x.a["size"]:
                return False
            if x.a["address"] is not None and not (0 <= x.a["address"] < 2**64):
                return False  # not representable in the schema
    return True


def snapshot(w, ir, writer="gtirb"):
    m = w.m
    sub = m.subtree(ir)
    return {
        "ir": ir,
        "nodes": m.clone_subset(sub),
        "order": list(sub),
        "self_contained": self_contained(m, ir, w.cfg.get("cross_module_refs", "none")),
        "uuid2label": {m.nodes[l].uuid: l for l in sub},
        "writer": writer,
    }


def relabel_nodes(nodes, order, f):
    """Clone of snapshot nodes with every label passed through f."""
    out = {}
    for l in order:
        n = nodes[l].clone()
        n.label = f(l)
        n.parent = f(n.parent) if n.parent is not None else None
        a = n.a
        if n.kind == "ir":
            a["modules"] = [f(x) for x in a["modules"]]
            a["cfg"] = {(f(s), f(t), lab) for s, t, lab in a["cfg"]}
        if n.kind == "mod" and a["entry_point"] is not None:
            a["entry_point"] = f(a["entry_point"])
        if n.kind == "sym" and a["payload"] is not None and a["payload"][0] == "ref":
            a["payload"] = ("ref", f(a["payload"][1]))
        if n.kind == "bi":
            for off, cell in a["se"].items():
                s = cell[0]
                if s[0] == "ac":
                    cell[0] = ("ac", s[1], f(s[2]), s[3])
                else:
                    cell[0] = ("aa", s[1], s[2], f(s[3]), f(s[4]), s[5])
        if "aux" in a:
            for t in a["aux"].values():
                if t.get("cv") is not None:
                    t["cv"] = relabel_cv(t["cv"], f)
                if t.get("home") is not None:
                    t["home"] = f(t["home"])
        out[n.label] = n
    return out


def relabel_cv(cv, f):
    if isinstance(cv, dict):
        if "node" in cv:
            return {"node": f(cv["node"])}
        return {k: relabel_cv(v, f) for k, v in cv.items()}
    if isinstance(cv, list):
        return [relabel_cv(x, f) for x in cv]
    return cv


# ---------------------------------------------------------------------------
# C02 writer direction: message fields == model


def parse_file(w, data):
    msg = w.g.proto.IR_pb2.IR()
    msg.ParseFromString(data[8:])
    return msg


def check_header(w, data, owner):
    if data[:5] != b"GTIRB" or data[5:7] != b"\0\0" or data[7:8] != bytes([4]) or len(data) < 8:
        w.violate(owner, "c02w:header", "file starts with %r" % data[:8])


def u16(b):
    return int.from_bytes(b, "big")


def check_message(w, msg, snap, owner=("C02",)):
    """Every field of the written message equals the model (snapshot)."""
    nodes = snap["nodes"]
    ir = nodes[snap["ir"]]

    def bad(what, got, want):
        w.violate(owner, "c02w:" + what.split(":")[0], "%s: message has %r, in-memory IR has %r" % (what, got, want))

    def uid(b, what):
        if len(b) != 16:
            bad("uuid_len:" + what, len(b), 16)
        return u16(b)

    if uid(msg.uuid, "ir") != ir.uuid:
        bad("ir.uuid", msg.uuid.hex(), "%032x" % ir.uuid)
    if msg.version != ir.a["version"]:
        bad("ir.version", msg.version, ir.a["version"])
    if len(msg.modules) != len(ir.a["modules"]):
        bad("ir.modules:count", len(msg.modules), len(ir.a["modules"]))
    by_uuid = snap["uuid2label"]
    cfg_nodes = []
    for pm, ml in zip(msg.modules, ir.a["modules"]):
        mn = nodes[ml]
        if uid(pm.uuid, ml) != mn.uuid:
            bad("module.uuid:%s (module list order)" % ml, pm.uuid.hex(), "%032x" % mn.uuid)
        for f, attr in (("name", "name"), ("binary_path", "binary_path"), ("preferred_addr", "preferred_addr"), ("rebase_delta", "rebase_delta")):
            if getattr(pm, f) != mn.a[attr]:
                bad("module.%s:%s" % (f, ml), getattr(pm, f), mn.a[attr])
        for f in ("isa", "file_format", "byte_order"):
            want = enum_number(w, f, mn.a[f])
            if getattr(pm, f) != want:
                bad("module.%s:%s" % (f, ml), getattr(pm, f), "%s=%d" % (mn.a[f], want))
        ep = mn.a["entry_point"]
        want = nodes[ep].uuid.to_bytes(16, "big") if ep is not None and ep in nodes else (None if ep is not None else b"")
        if want is not None and pm.entry_point != want:
            bad("module.entry_point:%s" % ml, pm.entry_point.hex(), want.hex())
        kids = {f: [l for l in snap["order"] if nodes[l].parent == ml and nodes[l].kind in ks] for f, ks in FIELDS["mod"].items()}
        _same_set(w, bad, "module.proxies:%s" % ml, [uid(p.uuid, "proxy") for p in pm.proxies], [nodes[l].uuid for l in kids["proxies"]])
        _same_set(w, bad, "module.sections:%s" % ml, [uid(s.uuid, "section") for s in pm.sections], [nodes[l].uuid for l in kids["sections"]])
        _same_set(w, bad, "module.symbols:%s" % ml, [uid(s.uuid, "symbol") for s in pm.symbols], [nodes[l].uuid for l in kids["symbols"]])
        cfg_nodes += kids["proxies"]
        for ps in pm.symbols:
            sl = by_uuid.get(u16(ps.uuid))
            if sl is None:
                continue
            sn = nodes[sl]
            if ps.name != sn.a["name"] or ps.at_end != sn.a["at_end"]:
                bad("symbol.name/at_end:%s" % sl, (ps.name, ps.at_end), (sn.a["name"], sn.a["at_end"]))
            which = ps.WhichOneof("optional_payload")
            p = sn.a["payload"]
            if p is None:
                if which is not None:
                    bad("symbol.payload:%s" % sl, which, None)
            elif p[0] == "int":
                if which != "value" or ps.value != p[1]:
                    bad("symbol.payload:%s" % sl, (which, ps.value), ("value", p[1]))
            else:
                ru = nodes[p[1]].uuid if p[1] in nodes else None
                if which != "referent_uuid" or (ru is not None and (len(ps.referent_uuid) != 16 or u16(ps.referent_uuid) != ru)):
                    bad("symbol.payload:%s" % sl, (which, ps.referent_uuid.hex()), ("referent_uuid", p[1]))
        for psec in pm.sections:
            sl = by_uuid.get(u16(psec.uuid))
            if sl is None:
                continue
            sn = nodes[sl]
            if psec.name != sn.a["name"]:
                bad("section.name:%s" % sl, psec.name, sn.a["name"])
            want = sorted(enum_number(w, "flags", f) for f in sn.a["flags"])
            if sorted(psec.section_flags) != want:
                bad("section.section_flags:%s" % sl, sorted(psec.section_flags), want)
            bis = [l for l in snap["order"] if nodes[l].parent == sl]
            _same_set(w, bad, "section.byte_intervals:%s" % sl, [uid(b.uuid, "interval") for b in psec.byte_intervals], [nodes[l].uuid for l in bis])
            for pb in psec.byte_intervals:
                bl = by_uuid.get(u16(pb.uuid))
                if bl is None:
                    continue
                bn = nodes[bl]
                A = bn.a["address"]
                if pb.has_address != (A is not None):
                    bad("interval.has_address:%s" % bl, pb.has_address, A)
                if A is not None and pb.address != A:
                    bad("interval.address:%s" % bl, pb.address, A)
                if pb.size != bn.a["size"]:
                    bad("interval.size:%s" % bl, pb.size, bn.a["size"])
                if pb.contents != bytes(bn.a["contents"]):
                    bad("interval.contents:%s" % bl, pb.contents, bytes(bn.a["contents"]))
                blocks = [l for l in snap["order"] if nodes[l].parent == bl]
                got = []
                for blk in pb.blocks:
                    which = blk.WhichOneof("value")
                    if which == "code":
                        got.append((uid(blk.code.uuid, "code"), "cb", blk.offset, blk.code.size, blk.code.decode_mode))
                    elif which == "data":
                        got.append((uid(blk.data.uuid, "data"), "db", blk.offset, blk.data.size, None))
                    else:
                        bad("block.oneof:%s" % bl, which, "code|data")
                want = []
                for l in blocks:
                    k = nodes[l]
                    want.append((k.uuid, k.kind, k.a["offset"], k.a["size"], enum_number(w, "decode_mode", k.a["decode_mode"]) if k.kind == "cb" else None))
                    if k.kind == "cb":
                        cfg_nodes.append(l)
                if sorted(got, key=repr) != sorted(want, key=repr):
                    bad("interval.blocks:%s" % bl, sorted(got, key=repr), sorted(want, key=repr))
                gse = {}
                for off, pe in pb.symbolic_expressions.items():
                    which = pe.WhichOneof("value")
                    attrs = sorted(pe.attribute_flags)
                    if which == "addr_const":
                        gse[off] = ("ac", pe.addr_const.offset, uid(pe.addr_const.symbol_uuid, "se"), attrs)
                    elif which == "addr_addr":
                        gse[off] = ("aa", pe.addr_addr.scale, pe.addr_addr.offset, uid(pe.addr_addr.symbol1_uuid, "se"), uid(pe.addr_addr.symbol2_uuid, "se"), attrs)
                    else:
                        bad("expression.oneof:%s@%d" % (bl, off), which, "addr_const|addr_addr")
                wse = {}
                for off, cell in bn.a["se"].items():
                    s = cell[0]
                    attrs = sorted(se_attr_number(w, a) for a in s[-1])
                    # compared by UUID (a symbol outside the snapshot is still written by UUID)
                    f = lambda x: nodes[x].uuid if x in nodes else w.label_uuid.get(x)  # noqa
                    wse[off] = ("ac", s[1], f(s[2]), attrs) if s[0] == "ac" else ("aa", s[1], s[2], f(s[3]), f(s[4]), attrs)
                if gse != wse:
                    bad("interval.symbolic_expressions:%s" % bl, gse, wse)
    # CFG
    got_v = [uid(v, "vertex") for v in msg.cfg.vertices]
    want_v = [nodes[l].uuid for l in cfg_nodes]
    if sorted(got_v) != sorted(want_v):
        bad("cfg.vertices", sorted("%032x" % x for x in got_v), sorted("%032x" % x for x in want_v))
    got_e = []
    for e in msg.cfg.edges:
        lab = None
        if e.HasField("label"):
            lab = (e.label.type, e.label.conditional, e.label.direct)
        got_e.append((uid(e.source_uuid, "edge"), uid(e.target_uuid, "edge"), lab))
    want_e = []
    for s, t, lab in ir.a["cfg"]:
        su = nodes[s].uuid if s in nodes else w.label_uuid.get(s)
        tu = nodes[t].uuid if t in nodes else w.label_uuid.get(t)
        want_e.append((su, tu, (enum_number(w, "edge_type", lab[0]), lab[1], lab[2]) if lab is not None else None))
    if sorted(got_e, key=repr) != sorted(want_e, key=repr):
        bad("cfg.edges", sorted(got_e, key=repr), sorted(want_e, key=repr))


def _same_set(w, bad, what, got, want):
    if sorted(got) != sorted(want):
        bad(what, sorted("%032x" % x for x in got), sorted("%032x" % x for x in want))


def aux_entries(msg, snap):
    """[(container label, name, proto AuxData)] of a parsed message."""
    out = []
    for name, ad in msg.aux_data.items():
        out.append((snap["ir"], name, ad))
    for pm, ml in zip(msg.modules, snap["nodes"][snap["ir"]].a["modules"]):
        for name, ad in pm.aux_data.items():
            out.append((ml, name, ad))
    return out


# ---------------------------------------------------------------------------
# message normalisation (re-save equality)


def normalise(msg, aux_content=False):
    """Canonical nested structure of an IR message with unordered repeated
    fields sorted. aux_content: AuxData tables of fully known type are compared
    by decoded, canonicalised value (set / mapping order, duplicates) instead
    of by their bytes."""
    import json as _json

    def blk(b):
        which = b.WhichOneof("value")
        inner = getattr(b, which) if which else None
        return (b.offset, which, inner.uuid if inner else None, inner.size if inner else None, inner.decode_mode if which == "code" else None)

    def se(e):
        which = e.WhichOneof("value")
        if which == "addr_const":
            v = (e.addr_const.offset, e.addr_const.symbol_uuid)
        elif which == "addr_addr":
            v = (e.addr_addr.scale, e.addr_addr.offset, e.addr_addr.symbol1_uuid, e.addr_addr.symbol2_uuid)
        else:
            v = None
        return (which, v, sorted(e.attribute_flags))

    def bi(b):
        return (b.uuid, b.has_address, b.address, b.size, b.contents, sorted(blk(x) for x in b.blocks), sorted((k, se(v)) for k, v in b.symbolic_expressions.items()))

    def sec(s):
        return (s.uuid, s.name, sorted(s.section_flags), sorted(bi(b) for b in s.byte_intervals))

    def sym(s):
        which = s.WhichOneof("optional_payload")
        return (s.uuid, s.name, s.at_end, which, getattr(s, which) if which else None)

    def aux_val(v):
        if aux_content:
            try:
                t = R.parse_type(v.type_name)
                if not R.has_unknown(t):
                    cv, used = R.decode(v.data, t)
                    if used == len(v.data):
                        return _json.dumps(R.canon(cv, t), sort_keys=True)
            except Exception:  # noqa
                pass
        return v.data

    def aux(mp):
        return sorted((k, v.type_name, aux_val(v)) for k, v in mp.items())

    def mod(m):
        return (
            m.uuid, m.binary_path, m.preferred_addr, m.rebase_delta, m.file_format, m.isa, m.name, m.byte_order, m.entry_point,
            sorted(sym(s) for s in m.symbols), sorted(p.uuid for p in m.proxies), sorted(sec(s) for s in m.sections), aux(m.aux_data),
        )

    def edge(e):
        return (e.source_uuid, e.target_uuid, (e.label.type, e.label.conditional, e.label.direct) if e.HasField("label") else None)

    return (msg.uuid, msg.version, [mod(m) for m in msg.modules], aux(msg.aux_data), sorted(msg.cfg.vertices), sorted((edge(e) for e in msg.cfg.edges), key=repr))


# ---------------------------------------------------------------------------
# C09: identity of references in a loaded IR


def c09_check(w, ir_label):
    I = w.objs[ir_label]
    by_uuid = {}
    for n in w.live_walk(I):
        by_uuid.setdefault(n.uuid.int, n)
    owner = ("C09",)

    def same(ref, what):
        if ref is None:
            return
        want = by_uuid.get(ref.uuid.int)
        if want is not ref:
            w.violate(owner, "c09:identity", "%s is %s (id %#x) but the node attached under that UUID is %s" % (what, w.L(ref), id(ref) & 0xFFFF, w.L(want)))

    for m in I.modules:
        same(m.entry_point, "%s.entry_point" % w.L(m))
        for s in m.symbols:
            same(s.referent, "%s.referent" % w.L(s))
        for sec in m.sections:
            for bi in sec.byte_intervals:
                for off, e in bi.symbolic_expressions.items():
                    for i, s in enumerate(e.symbols):
                        same(s, "%s.symbolic_expressions[%d].symbols[%d]" % (w.L(bi), off, i))
    for e in I.cfg:
        same(e.source, "cfg edge source")
        same(e.target, "cfg edge target")
    for n in w.live_walk(I):
        if isinstance(n, w.g.CfgNode):
            for e in list(I.cfg.out_edges(n)) + list(I.cfg.in_edges(n)):
                same(e.source, "out/in_edges(%s) source" % w.L(n))
                same(e.target, "out/in_edges(%s) target" % w.L(n))
            if n.ir is I:
                for e in list(n.outgoing_edges) + list(n.incoming_edges):
                    same(e.source, "%s.incoming/outgoing_edges source" % w.L(n))
                    same(e.target, "%s.incoming/outgoing_edges target" % w.L(n))
    w.counters["c09:loads_checked"] += 1


# ---------------------------------------------------------------------------
# operations


def _real_path(w, path):
    """The path API is exercised against REAL files in a directory the harness owns (under the
    build directory, removed with it): whatever file API the code uses (open, os.open, pathlib)
    reaches it, and what an earlier save left under that name is really there."""
    import os

    d = getattr(w, "realdir", None)
    if d is None:
        base = os.environ.get("GSIM_BUILD_DIR") or os.path.join(os.path.dirname(os.path.dirname(os.path.abspath(__file__))), ".build")
        w.next_id["realdir"] += 1
        d = w.realdir = os.path.join(base, "disk", "%d-%d" % (os.getpid(), id(w)))
        os.makedirs(d, exist_ok=True)
    return os.path.join(d, path)


def _sync_to_real(w, path):
    import os

    rp = _real_path(w, path)
    data = w.disk.files.get(path)
    if data is None:
        if os.path.exists(rp):
            os.remove(rp)
    else:
        with open(rp, "wb") as f:
            f.write(data)
    return rp


def do_save(w, I, path, flavor):
    if flavor == "path":
        rp = _sync_to_real(w, path)  # an older (possibly longer) file of that name is on the disk
        if path.endswith("p"):
            import pathlib

            I.save_protobuf(pathlib.Path(rp))
        else:
            I.save_protobuf(rp)
        with open(rp, "rb") as f:
            w.disk.files[path] = f.read()
        w.disk.chunks[path] = None
    else:
        f = w.disk.open(path, "wb")
        try:
            I.save_protobuf_file(f)
        finally:
            f.close()


def do_load(w, path, flavor):
    if flavor == "path":
        rp = _sync_to_real(w, path)
        if path.endswith("p"):
            import pathlib

            return w.g.IR.load_protobuf(pathlib.Path(rp))
        return w.g.IR.load_protobuf(rp)
    f = w.disk.open(path, "rb")
    try:
        return w.g.IR.load_protobuf_file(f)
    finally:
        f.close()


@register
class Save(Op):
    """{"op":"save","ir":I,"path":P,"flavor":"path"|"stream"}"""

    name = "save"
    family = "persist"
    timeout_owner = ("C01", "C14")

    def labels(self, op):
        return [(op["ir"], ("ir",))]

    def touched(self, w, op):
        return []

    def run(self, w, op):
        I = w.objs[op["ir"]]
        out = capture(lambda: do_save(w, I, op["path"], op.get("flavor", "stream")))
        out.value = None
        return out

    def model(self, w, op, out):
        from . import ops_aux

        snap = snapshot(w, op["ir"])
        sc = snap["self_contained"]
        if out.kind != "ok":
            # saving may legitimately fail only for states outside C01's precondition
            w.snapshots.pop(op["path"], None)
            w.disk.files.pop(op["path"], None)
            if sc and not ops_aux.unsavable_aux(w, snap):
                # every value of every supported type must be encodable (C07/C08), every
                # self-contained IR savable (C01), every byte-storage state savable (C19)
                return Exp("ok", value=None, owner=("C01", "C19", "C07", "C08", "C14"))
            return None
        data = w.disk.files.get(op["path"])
        if data is None:
            w.violate(("C01", "C02"), "save:nofile", "save returned but nothing reached the disk")
        w.counters["probe:saves"] += 1
        w.counters["probe:saved_nodes_total"] += len(snap["order"])
        w.counters["probe:saved_refs_total"] += _count_refs(snap)
        try:
            msg = parse_file(w, data)
        except Exception as e:  # noqa
            w.violate(("C01", "C02", "C19"), "save:unparsable", "the %d bytes save left at %s are not a GTIRB file: %s: %s" % (len(data), op["path"], type(e).__name__, e))
        if w.owns(("C02",)):
            check_header(w, data, ("C02",))
            check_message(w, msg, snap)
        if w.owns(("C14", "C08", "C07", "C01")):
            ops_aux.check_saved_aux(w, msg, snap)
        # what is durable now: AuxData tables become 'raw as written'
        ops_aux.note_saved(w, msg, snap)
        w.snapshots[op["path"]] = snap
        for il in [il for il, p in w.saved_as.items() if p == op["path"]]:
            del w.saved_as[il]
        w.saved_as[op["ir"]] = op["path"]
        if sc:
            w.counters["probe:saves_self_contained"] += 1
            if len(snap["nodes"][snap["ir"]].a["modules"]) >= 2:
                w.counters["probe:saves_multi_module"] += 1
        return Exp("ok", value=None, owner=("C01",))


class FailingStream:
    """A stream on a full / failing disk: accepts `limit` bytes, then write()
    raises OSError. What was accepted is what the disk holds afterwards."""

    def __init__(self, limit, err):
        self.limit, self.err = limit, err
        self.data = bytearray()
        self.fired = False

    def write(self, b):
        b = bytes(b)
        room = self.limit - len(self.data)
        if len(b) > room:
            self.data += b[: max(room, 0)]  # short write, then the error
            self.fired = True
            raise self.err
        self.data += b
        return len(b)

    def flush(self):
        pass


@register
class SaveFault(Op):
    """{"op":"save_fault","ir":I,"path":P,"fail_after":k,"errno":E}: save to a
    stream that accepts k bytes and then fails (disk full, I/O error). The call
    must not report success; nothing in memory may change (the per-step model
    comparison sees to that); the torn file is not a durable copy of anything.
    If the IR fits into k bytes no fault fires and this is an ordinary save."""

    name = "save_fault"
    family = "persist"
    timeout_owner = ("C01", "C14")

    def labels(self, op):
        return [(op["ir"], ("ir",))]

    def touched(self, w, op):
        return []

    def ready(self, w, op):
        # a table retyped while its bytes are still undecoded is decoded by the save - if the
        # save gets that far. Keep the model exact: not under a write fault.
        n = w.m.nodes[op["ir"]]
        for cl in [op["ir"]] + list(n.a["modules"]):
            if cl in w.m.nodes and any(t["state"] == "retyped" for t in w.m.nodes[cl].a["aux"].values()):
                return False
        return True

    def run(self, w, op):
        import errno
        import os

        I = w.objs[op["ir"]]
        if op.get("devfull"):
            # the PATH API against a real full device: the kernel fails the write (ENOSPC)
            if not os.path.exists("/dev/full"):
                out = Out("exc", exc=OSError("no /dev/full on this system"))
                out.raw = "devfull-unavailable"
                return out
            out = capture(lambda: I.save_protobuf("/dev/full"))
            out.value = None
            out.raw = "devfull"
            return out
        e = OSError(getattr(errno, op.get("errno", "ENOSPC")), "simulated write failure")
        st = FailingStream(op["fail_after"], e)
        out = capture(lambda: I.save_protobuf_file(st))
        out.value = None
        out.raw = st
        w.disk.files[op["path"]] = bytes(st.data)
        w.disk.chunks[op["path"]] = None
        return out

    def model(self, w, op, out):
        st = out.raw
        if st == "devfull-unavailable":
            return None
        if st == "devfull":
            w.counters["fault:write_error_during_save"] += 1
            w.counters["fault:enospc_from_dev_full_path_api"] += 1
            if out.kind == "ok":
                w.violate(("C01", "C14"), "save:write_error_swallowed", "save_protobuf('/dev/full') returned normally although the device accepts no byte (ENOSPC)")
            return None
        if not getattr(st, "fired", False):
            return OPS["save"].model(w, op, out)
        w.counters["fault:write_error_during_save"] += 1
        # the file at that path is torn now: no durable copy of anything
        w.snapshots.pop(op["path"], None)
        for il in [il for il, p in w.saved_as.items() if p == op["path"]]:
            del w.saved_as[il]
        if out.kind == "ok":
            w.violate(("C01", "C14"), "save:write_error_swallowed", "the stream failed after %d bytes (%s) but save_protobuf_file returned normally; %d bytes are on the disk" % (op["fail_after"], op.get("errno", "ENOSPC"), len(st.data)))
        return None  # which exception reaches the caller is not prescribed by any statement


def _count_refs(snap):
    n = 0
    for l in snap["order"]:
        x = snap["nodes"][l]
        if x.kind == "ir":
            n += len(x.a["cfg"])
        elif x.kind == "mod" and x.a["entry_point"] is not None:
            n += 1
        elif x.kind == "sym" and x.a["payload"] is not None and x.a["payload"][0] == "ref":
            n += 1
        elif x.kind == "bi":
            n += len(x.a["se"])
    return n


def register_loaded(w, I, snap, f, owners):
    """Label the nodes of a loaded IR by UUID against the snapshot; install
    the (relabelled) snapshot as their model. Returns the new labels."""
    nodes = relabel_nodes(snap["nodes"], snap["order"], f)
    u2l = {u: f(l) for u, l in snap["uuid2label"].items()}
    seen = {}
    for n in w.live_walk(I):
        l = u2l.get(n.uuid.int)
        if l is None:
            w.violate(owners, "load:unknown_node", "loaded IR contains a %s with UUID %s that was never saved" % (type(n).__name__, n.uuid))
        if l in seen and seen[l] is not n:
            w.violate(owners, "load:dup_node", "loaded IR contains two nodes for %s" % l)
        if l not in seen:
            seen[l] = n
    missing = [l for l in nodes if l not in seen]
    if missing:
        w.violate(owners, "load:missing_node", "saved nodes %r are not reachable in the loaded IR" % missing[:6])
    for l, mn in nodes.items():
        if nodes[l].kind != w.kind_of_obj(seen[l]):
            w.violate(owners, "load:kind", "%s saved as %s, loaded as %s" % (l, nodes[l].kind, type(seen[l]).__name__))
        w.register(l, seen[l], mn)
    return list(nodes)


def post_load_checks(w, op, I_label, labels, snap, path):
    """C01 / C02-reader / C09 oracles on a freshly loaded, labelled IR."""
    from . import ops_aux

    owners = ("C01", "C02")
    if w.owns(("C09",)):
        c09_check(w, I_label)
    compare_model(w, labels, owners, owner_others=owners, labels=labels)
    # re-save gives the same content (before any AuxData is decoded: raw passthrough)
    I = w.objs[I_label]
    buf = io.BytesIO()
    out = capture(lambda: I.save_protobuf_file(buf))
    if out.kind != "ok":
        w.violate(("C01", "C17"), "load:resave_fails", "saving the loaded IR raised %s: %s" % (type(out.exc).__name__, out.exc))
    ma, mb = parse_file(w, w.disk.files[path]), parse_file(w, buf.getvalue())
    a, b = normalise(ma, aux_content=True), normalise(mb, aux_content=True)
    if snap["writer"] != "gtirb":
        # a foreign writer's vertex list / element order / non-canonical AuxData need not be reproduced
        w.counters["probe:peer_loads_checked"] += 1
    elif a != b:
        w.violate(("C01",), "c01:resave_differs", _first_diff(a, b))
    elif normalise(ma) != normalise(mb):
        # same content, other bytes for a table nobody read: C01 is satisfied ("same content"),
        # C14 is not ("written back byte for byte")
        w.violate(("C14",), "c14:resave_rewrites_untouched", _first_diff(normalise(ma), normalise(mb)))
    w.counters["probe:loads_checked"] += 1


def _first_diff(a, b, path="msg"):
    if type(a) != type(b):
        return "%s: %r vs %r" % (path, a, b)
    if isinstance(a, (list, tuple)):
        if len(a) != len(b):
            return "%s: length %d vs %d" % (path, len(a), len(b))
        for i, (x, y) in enumerate(zip(a, b)):
            if x != y:
                return _first_diff(x, y, "%s[%d]" % (path, i))
    return "%s: %r vs %r" % (path, a, b)


def deep_eq_both(w, a_label, b_label, owner, expect=True, what=""):
    A, B = w.objs[a_label], w.objs[b_label]
    r1 = capture(lambda: A.deep_eq(B))
    r2 = capture(lambda: B.deep_eq(A))
    for r, d in ((r1, "%s.deep_eq(%s)" % (a_label, b_label)), (r2, "%s.deep_eq(%s)" % (b_label, a_label))):
        if r.kind != "ok":
            w.violate(owner, "deep_eq:raises", "%s raised %s: %s %s" % (d, type(r.exc).__name__, r.exc, what))
        if bool(r.raw) != expect:
            w.violate(owner, "deep_eq:%s" % ("false_on_equal" if expect else "true_on_different"), "%s = %r, expected %r %s" % (d, r.raw, expect, what))


def model_equal_to_snapshot(w, ir, snap):
    """Is the live model of `ir` still what was saved?"""
    sub = w.m.subtree(ir)
    if sub != snap["order"]:
        return False
    for l in sub:
        if model_view(w.m, w.m.nodes[l]) != _snap_view(snap, l):
            return False
    return True


def _snap_view(snap, l):
    class _M:
        pass

    fm = _M()
    fm.nodes = snap["nodes"]

    def kids(pl, field=None):
        p = snap["nodes"][pl]
        if p.kind == "ir":
            return list(p.a["modules"])
        ks = FIELDS[p.kind][field] if field else None
        return [x for x in snap["order"] if snap["nodes"][x].parent == pl and (ks is None or snap["nodes"][x].kind in ks)]

    fm.kids = kids
    return model_view(fm, snap["nodes"][l])


@register
class Load(Op):
    """{"op":"load","path":P,"as":"T1","flavor":...}: adds a twin IR (equal
    UUIDs) to the world."""

    name = "load"
    family = "persist"
    timeout_owner = ("C17", "C01")

    def ready(self, w, op):
        return op["path"] in w.disk.files and op["path"] in w.snapshots and (op["as"] + "." + w.snapshots[op["path"]]["ir"]) not in w.m.nodes

    def run(self, w, op):
        out = capture(lambda: do_load(w, op["path"], op.get("flavor", "stream")))
        if out.kind == "ok":
            out.value = "loaded"
        return out

    def model(self, w, op, out):
        snap = w.snapshots[op["path"]]
        pre = op["as"] + "."
        if not snap["self_contained"]:
            # no verdict for states outside C01's precondition
            if out.kind == "ok":
                w.dropped.append(out.raw)
            w.counters["probe:loads_not_self_contained"] += 1
            return None
        if out.kind != "ok":
            return Exp("ok", value="loaded", owner=("C01", "C02", "C17"))
        I = out.raw
        inside = set(snap["order"])
        labels = register_loaded(w, I, snap, lambda l: (pre + l) if l in inside else l, ("C01", "C02"))
        post_load_checks(w, op, pre + snap["ir"], labels, snap, op["path"])
        orig = snap["ir"]
        if orig in w.m.nodes and orig in w.objs and model_equal_to_snapshot(w, orig, snap) and snap["writer"] == "gtirb":
            deep_eq_both(w, orig, pre + orig, ("C01", "C18"), True, "(original vs its save/load image)")
            w.counters["probe:deep_eq_orig_vs_loaded"] += 1
        w.last_loaded = {"ir": pre + snap["ir"], "labels": labels, "path": op["path"]}
        return Exp("ok", value="loaded", owner=("C01", "C02", "C17"))


@register
class Copy(Op):
    """{"op":"copy","ir":I,"as":"K1","how":"deepcopy"|"pickle"}: a second IR made by Python's
    own copy protocols from a live one - an independent twin with equal UUIDs, like a load but
    without a file. Only for IRs that are self-contained, hold no AuxData tables and no
    expression object stored in two places (the copy protocols preserve such sharing, a file
    does not; the model here is the file's)."""

    name = "copy"
    family = "persist"
    timeout_owner = ("C03", "C04")

    def labels(self, op):
        return [(op["ir"], ("ir",))]

    def touched(self, w, op):
        return []

    def ready(self, w, op):
        m = w.m
        I = op["ir"]
        if (op["as"] + "." + I) in m.nodes or not self_contained(m, I, "none"):
            return False
        cells = set()
        for l in m.subtree(I):
            n = m.nodes[l]
            if n.a.get("aux"):
                return False
            if n.kind == "bi":
                if l in w.immutable_contents:
                    return False
                for cell in n.a["se"].values():
                    if id(cell) in cells:
                        return False
                    cells.add(id(cell))
        # ... nor may an expression of this IR be shared with an interval outside it
        for l, n in m.nodes.items():
            if n.kind == "bi" and l not in m.subtree(I):
                if any(id(cell) in cells for cell in n.a["se"].values()):
                    return False
        return True

    def run(self, w, op):
        import copy
        import pickle

        I = w.objs[op["ir"]]
        if op.get("how") == "pickle":
            out = capture(lambda: pickle.loads(pickle.dumps(I)))
        else:
            out = capture(lambda: copy.deepcopy(I))
        if out.kind == "ok":
            out.value = "copied"
        return out

    def model(self, w, op, out):
        owners = ("C03", "C04", "C16", "C05", "C06", "C13")
        w.counters["probe:ir_copies_" + op.get("how", "deepcopy")] += 1
        if out.kind != "ok":
            return Exp("ok", value="copied", owner=owners)
        snap = snapshot(w, op["ir"])
        pre = op["as"] + "."
        inside = set(snap["order"])
        labels = register_loaded(w, out.raw, snap, lambda l: (pre + l) if l in inside else l, owners)
        compare_model(w, labels, owners, owner_others=owners, labels=labels)
        if w.owns(("C09", "C03", "C04")):
            c09_check_as(w, pre + snap["ir"], owners)
        return Exp("ok", value="copied", owner=owners)


def c09_check_as(w, ir_label, owners):
    """Every reference inside the copy is the copy's own object (identity), charged to `owners`."""
    from .core import Violation

    saved = w.prop
    try:
        w.prop = ("C09",)
        try:
            c09_check(w, ir_label)
        except Violation as v:
            w.prop = saved
            w.violate(owners, "copy:" + v.check, v.detail)
    finally:
        w.prop = saved


class FailingReader:
    """A stream over a good file that delivers `limit` bytes and then fails
    (I/O error on the medium): read() hands out what is left before the limit,
    the next call raises."""

    def __init__(self, data, limit, err):
        self.data, self.limit, self.err, self.pos = bytes(data), limit, err, 0

    def read(self, n=-1):
        if self.pos >= self.limit:
            raise self.err
        end = self.limit if n is None or n < 0 else min(self.limit, self.pos + n)
        out = self.data[self.pos:end]
        self.pos = end
        if (n is None or n < 0) and self.limit < len(self.data):
            raise self.err  # "read everything" cannot complete
        return out


@register
class LoadFault(Op):
    """{"op":"load_fault","path":P,"fail_after":k}: loading a GOOD file from a
    stream that fails after k bytes. The loader must not return an IR (it has
    seen a prefix only); nothing else in the process may change (twins of the
    same file are loaded before and after this in the same run)."""

    name = "load_fault"
    family = "persist"
    timeout_owner = ("C17",)

    def ready(self, w, op):
        return op["path"] in w.disk.files and op["path"] in w.snapshots and op["fail_after"] < len(w.disk.files[op["path"]])

    def run(self, w, op):
        import errno

        st = FailingReader(w.disk.files[op["path"]], op["fail_after"], OSError(errno.EIO, "simulated read failure"))
        out = capture(lambda: w.g.IR.load_protobuf_file(st))
        if out.kind == "ok":
            out.value = "loaded"
        return out

    def model(self, w, op, out):
        w.counters["fault:read_error_during_load"] += 1
        if out.kind == "ok":
            w.dropped.append(out.raw)
            w.violate(("C17", "C01"), "load:read_error_swallowed", "the stream failed after %d of %d bytes, load_protobuf_file returned an IR all the same" % (op["fail_after"], len(w.disk.files[op["path"]])))
        return None


@register
class Restart(Op):
    """{"op":"restart"}: crash + restart. Every live object is dropped; the
    world is re-created by loading, for every IR that was ever saved, its
    latest file from the simulated disk. The model rolls back to the snapshots
    taken at those saves; labels are kept."""

    name = "restart"
    family = "persist"
    timeout_owner = ("C17", "C01")

    def ready(self, w, op):
        return any(p in w.disk.files and w.snapshots.get(p, {}).get("ir") == il for il, p in w.saved_as.items())

    def run(self, w, op):
        todo = sorted((il, p) for il, p in w.saved_as.items() if p in w.disk.files and w.snapshots.get(p, {}).get("ir") == il)
        w.drop_all()
        res = []
        for il, p in todo:
            res.append((il, p, capture(lambda: do_load(w, p, op.get("flavor", "stream")))))
        out = Out("ok", raw=res)
        out.value = [[il, r.kind if r.kind == "ok" else type(r.exc).__name__] for il, p, r in res]
        return out

    def model(self, w, op, out):
        w.saved_as = {il: p for il, p, r in out.raw}
        w.counters["probe:restarts"] += 1
        w.counters["fault:crash_restart"] += 1
        claimed = set()
        for il, p, r in out.raw:
            snap = w.snapshots[p]
            if not snap["self_contained"] or set(snap["order"]) & claimed:
                if r.kind == "ok":
                    w.dropped.append(r.raw)
                w.saved_as.pop(il, None)
                continue
            if r.kind != "ok":
                w.violate(("C01", "C02", "C17"), "restart:load_fails", "file %s written by save from a self-contained IR is rejected: %s: %s" % (p, type(r.exc).__name__, r.exc))
            claimed |= set(snap["order"])
            labels = register_loaded(w, r.raw, snap, lambda l: l, ("C01", "C02"))
            post_load_checks(w, op, il, labels, snap, p)
            w.counters["probe:restart_irs"] += 1
        return None
