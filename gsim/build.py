"""Build the gtirb Python package from /repo's *working tree* into a scratch
directory, with generated proto modules (miniprotoc) and version.py.

Nothing from the installed wheel in /venv is used except third-party
dependencies (protobuf, intervaltree, sortedcontainers, networkx,
typing_extensions).
"""
import os
import re
import shutil
import subprocess
import sys

REPO = os.environ.get("GSIM_REPO", "/repo")
VERIF = os.path.dirname(os.path.dirname(os.path.abspath(__file__)))
BUILD_ROOT = os.path.join(VERIF, ".build")
PYTHON = os.environ.get("GSIM_PYTHON", "/venv/bin/python")


def _render_version(repo, out_path):
    vals = {}
    for line in open(os.path.join(repo, "version.txt")):
        parts = line.split()
        if len(parts) == 2:
            vals[parts[0]] = parts[1]
    tpl = open(os.path.join(repo, "python", "version.py.in")).read()
    subst = {
        "PROJECT_VERSION_MAJOR": vals["VERSION_MAJOR"],
        "PROJECT_VERSION_MINOR": vals["VERSION_MINOR"],
        "PROJECT_VERSION_PATCH": vals["VERSION_PATCH"],
        "GTIRB_PYTHON_DEV_SUFFIX": "",
        "GTIRB_PROTOBUF_VERSION": vals["VERSION_PROTOBUF"],
    }
    out = re.sub(r"@([A-Z_]+)@", lambda m: subst[m.group(1)], tpl)
    with open(out_path, "w") as f:
        f.write(out)


def build(tag=None, repo=REPO):
    """Returns the directory to put first on sys.path."""
    tag = tag or ("run-%d" % os.getpid())
    out = os.path.join(BUILD_ROOT, tag)
    if os.path.exists(out):
        shutil.rmtree(out)
    pkg = os.path.join(out, "gtirb")
    os.makedirs(os.path.join(pkg, "proto"))
    src = os.path.join(repo, "python", "gtirb")
    for name in sorted(os.listdir(src)):
        if name.endswith(".py"):
            shutil.copy(os.path.join(src, name), os.path.join(pkg, name))
    open(os.path.join(pkg, "proto", "__init__.py"), "w").close()
    _render_version(repo, os.path.join(pkg, "version.py"))
    # miniprotoc needs protobuf, which lives in /venv; run it there so the
    # parent process stays free of protobuf imports.
    subprocess.run(
        [
            PYTHON,
            os.path.join(VERIF, "gsim", "miniprotoc.py"),
            os.path.join(repo, "proto"),
            os.path.join(pkg, "proto"),
        ],
        check=True,
        env=dict(os.environ, PYTHONDONTWRITEBYTECODE="1"),
    )
    return out


def clean(tag=None):
    tag = tag or ("run-%d" % os.getpid())
    shutil.rmtree(os.path.join(BUILD_ROOT, tag), ignore_errors=True)


if __name__ == "__main__":
    d = build(sys.argv[1] if len(sys.argv) > 1 else "manual")
    print(d)
