"""Profiles: workload mix + decisive oracle set per property."""
from . import gen_own
from .ops import OPS
from .oracle_own import compare_model, inv_c03, inv_c04
from .core import Seams

REGISTRY = {}


def profile(cls):
    REGISTRY[cls.prop] = cls
    return cls


class Profile:
    prop = None
    name = "?"
    timeout_owner = ()
    level = "exploration"
    rule = ""
    # quick/thorough run counts (per check), tuned to the wall budgets
    runs_quick = 8000
    runs_thorough = 240000

    chunk = 20
    wall_quick = 75.0
    wall_thorough = 1500.0
    components = {
        "real": ["gtirb (built from /repo working tree)", "protobuf runtime (upb and pure-Python backends)", "intervaltree", "sortedcontainers", "networkx"],
        "stub": ["uuid4 (seeded)", "SetWrapper iteration order (seeded permutation)", "Node.__hash__ (by UUID instead of by address)", "byte streams (SimDisk; the path API writes real files under the build directory)"],
    }

    def config(self, r):
        return {"steps": r.randrange(30, 100), "order_mode": r.choice(Seams.ORDER_MODES)}

    def run(self, ctx, seed, run, ops=None, cfg=None):
        from .sim import run_one

        return run_one(ctx, self, seed, run, ops=ops, cfg=cfg)

    def shrink(self, ctx, seed, run, cfg, ops, violation):
        from .sim import shrink

        return shrink(ctx, self, seed, run, cfg, ops, violation)

    def evidence(self, prop, tier, seed, results, wall, cut, lo, hi, jobs, pools_info=()):
        from collections import Counter

        tot = Counter()
        for d in results:
            for k, v in d["counters"].items():
                tot[k] += v
        nontriv = {d["kind_seq_hash"] for d in results if d["nontrivial"] and not d["aborted"]}
        states = {d["state_hash"] for d in results}
        steps = sum(d["steps"] for d in results)
        samples = []
        for d in results:
            if "ops" in d and len(samples) < 2:
                samples.append({"run": d["run"], "backend": "upb" if d["run"] % 2 == 0 else "python", "cfg": d.get("cfg"), "ops": d["ops"][:40], "n_ops": len(d["ops"]), "event_log_tail": d.get("tail")})
        cpu = sum(d["cpu"] for d in results)
        n = len(results)
        cov = {
            "evaluations": n,
            "distinct_nontrivial": len(nontriv),
            "rule": self.rule,
            "samples": samples,
            "steps": steps,
            "simulated_time_steps": steps,
            "runs_per_hour": int(n / wall * 3600) if wall > 0 else 0,
            "seeds_per_hour": int(n / wall * 3600) if wall > 0 else 0,
            "cpu_s": round(cpu, 2),
            "run_index_range": [lo, hi],
            "wall_cap_hit": bool(cut),
            "aborted_runs": sum(1 for d in results if d["aborted"]),
            "distinct_interleavings_by_opkind_sequence": len({d["kind_seq_hash"] for d in results}),
            "distinct_final_model_states": len(states),
            "op_family_histogram": {k[4:]: v for k, v in sorted(tot.items()) if k.startswith("fam:")},
            "op_histogram": {k[3:]: v for k, v in sorted(tot.items()) if k.startswith("op:")},
            "method_histogram": {k[5:]: v for k, v in sorted(tot.items()) if k.startswith("meth:")},
            "fault_kinds_fired": {k[6:]: v for k, v in sorted(tot.items()) if k.startswith("fault:")},
            "reach_probes": {k[6:]: v for k, v in sorted(tot.items()) if k.startswith("probe:")},
            "skipped_ops": tot.get("skip", 0),
            "seam_set_iterations": tot.get("seam:iter_calls", 0),
            "seam_set_iterations_permuted": tot.get("seam:permuted", 0),
            "backend_split": {"upb": sum(1 for d in results if d["run"] % 2 == 0), "python": sum(1 for d in results if d["run"] % 2 == 1)},
            "workers": jobs,
            "components": self.components,
            "exhaustive": False,
        }
        cov.update(self.extra_coverage(results, tot))
        return {
            "property_id": prop,
            "tier": tier,
            "seed": seed,
            "level": self.level,
            "coverage": cov,
            "assumptions": self.assumptions(),
            "wall_s": round(wall, 2),
            "violations": 0,
        }

    def extra_coverage(self, results, tot):
        return {}

    def assumptions(self):
        return [
            "sampling: a clean batch is evidence for the histories, schedules and faults drawn, not a proof",
            "the reference model (one parent pointer per node, Python built-ins) and the live-structure scans are trusted",
            "miniprotoc (pure-Python proto3 -> descriptor) stands in for protoc, which is not installed",
        ]

    def begin(self, w):
        pass

    def gen(self, w):
        raise NotImplementedError

    def after(self, w, op, out):
        pass

    def finish(self, w):
        pass

    def nontrivial(self, w):
        return True

    def simplify(self, ops, test):
        return ops

    # helpers -----------------------------------------------------------
    def choose_family(self, w, r, weights):
        fams = [f for f, wt in weights.items() if wt > 0]
        return r.choices(fams, weights=[weights[f] for f in fams])[0]


def swarm_weights(r, base, off_p=0.25, keep=()):
    """Swarm style: switch some families off per run, jitter the others."""
    out = {}
    for f, wt in base.items():
        if f not in keep and r.random() < off_p:
            out[f] = 0.0
        else:
            out[f] = wt * r.choice([0.5, 1.0, 1.0, 2.0])
    if not any(out.values()):
        out = dict(base)
    return out


INDEX_ATTRS = ("offset", "size", "address")

OWN_BASE = {
    "new": 5.0,
    "setparent": 4.0,
    "setop": 5.0,
    "setop_pure": 1.0,
    "listop": 3.0,
    "listop_pure": 0.7,
    "setattr": 1.5,
    "persist": 0.5,
    "repr": 0.3,
}


class OwnProfile(Profile):
    """Ownership histories over several IRs."""

    name = "own"
    base = OWN_BASE
    keep = ("new",)

    def config(self, r):
        c = super().config(r)
        c["steps"] = r.randrange(30, 100)
        c["weights"] = swarm_weights(r, self.base, keep=self.keep)
        c["deep"] = getattr(self, "tier", "quick") == "thorough" and r.random() < 0.4
        c["p_explicit_uuid"] = r.choice([0.6, 0.85, 1.0])
        c["p_ctor_parent"] = r.choice([0.2, 0.5, 0.8])
        c["p_ctor_kids"] = r.choice([0.1, 0.25, 0.5])
        c["p_raising_iter"] = r.choice([0.0, 0.15, 0.3])
        c["p_addr_none"] = r.choice([0.1, 0.3])
        c["contents"] = True
        # a few runs build one collection of several hundred members (strategy switches)
        c["bulk"] = r.random() < 0.02
        # now and then an operation OUTSIDE every statement's domain is attempted (a second node
        # with a UUID the IR already holds): accepted -> the run ends; refused -> must be clean
        c["p_out_of_domain"] = r.choice([0.0, 0.1, 0.3]) if getattr(self, "prop", None) in ("C03", "C04", "C05", "C06", "C13", "C16") else 0.0
        # twins made by copy.deepcopy / pickle (workloads without AuxData only, see persist.Copy)
        c["allow_copy"] = getattr(self, "prop", None) in ("C03", "C04", "C05", "C06", "C13", "C16")
        return c

    def gen_out_of_domain(self, w, r):
        from .world import PARENT_OF

        m = w.m
        by_uuid = {}
        for l, n in m.nodes.items():
            if n.kind in PARENT_OF:
                by_uuid.setdefault(n.uuid, []).append(l)
        pairs = []
        for u, ls in sorted(by_uuid.items()):
            if len(ls) >= 2:
                for x in ls:
                    if m.ir_of(x) is not None:
                        pairs += [(x, y) for y in ls if y != x and m.ir_of(y) != m.ir_of(x)]
        if not pairs:
            return None
        pref = [pq for pq in pairs if m.nodes[pq[0]].kind in ("bi", "cb", "db")]
        if pref and r.random() < 0.7:
            pairs = pref  # the indexed kinds
        x, y = pairs[r.randrange(len(pairs))]
        I = m.ir_of(x)
        pk = PARENT_OF[m.nodes[y].kind][0]
        ps = [I] if pk == "ir" else [l for l in m.subtree(I) if m.nodes[l].kind == pk]
        if not ps:
            return None
        return {"op": "setparent", "child": y, "parent": ps[r.randrange(len(ps))], "out_of_domain": True}

    def gen_bulk(self, w, r):
        from .world import PARENT_OF

        kind = r.choice(["cb", "db", "bi", "sec", "sym", "px"])
        ps = w.m.by_kind(PARENT_OF[kind][0])
        if not ps:
            return None
        P = ps[r.randrange(len(ps))]
        w.next_id["bulk"] += 1
        op = {"op": "bulk_new", "parent": P, "kind": kind, "count": r.randrange(257, 301), "base": "bk%d_" % w.next_id["bulk"]}
        field = PARENT_OF[kind][1]
        how = r.choice(["clear", "isub", "ixor", "none"])
        if how == "clear":
            w.queue.append({"op": "setop", "parent": P, "field": field, "method": "clear", "args": []})
        elif how in ("isub", "ixor"):
            w.queue.append({"op": "setop", "parent": P, "field": field, "method": how, "args": [{"wrapper": [P, field]}]})
        return op

    def gen(self, w):
        r = w.rs.ops
        if w.cfg.get("bulk") and not w.counters["probe:bulk_gen"] and len(w.m.nodes) >= 6 and not w.queue:
            op = self.gen_bulk(w, r)
            if op is not None and self._ready(w, op):
                w.counters["probe:bulk_gen"] += 1
                return op
        if w.cfg.get("p_out_of_domain") and not w.queue and w.step * 3 >= w.cfg.get("steps", 60) * 2 and r.random() < w.cfg["p_out_of_domain"]:
            op = self.gen_out_of_domain(w, r)
            if op is not None and self._ready(w, op):
                return op
        while w.queue:
            op = w.queue.pop(0)
            if op.get("op") == "heal_then":
                from . import gen_persist

                then = op["then"]
                hs = gen_persist.heal_ops(w, then["ir"]) if then["ir"] in w.m.nodes else []
                w.queue[0:0] = hs + [then]
                continue
            if self._ready(w, op):
                return op
        fam = self.choose_family(w, r, w.cfg["weights"])
        # bootstrap: make sure there is something to work with
        if len(w.m.nodes) < 4:
            fam = "new"
        for _ in range(4):
            op = self.gen_family(w, r, fam)
            if op is not None and OPS[op["op"]].__class__ and self._ready(w, op):
                return op
        return None

    def _ready(self, w, op):
        from .ops import labels_exist

        d = OPS[op["op"]]
        return labels_exist(w, op, d) and d.ready(w, op)

    def gen_family(self, w, r, fam):
        if fam == "new":
            return gen_own.gen_new(w, r)
        if fam == "setparent":
            return gen_own.gen_setparent(w, r)
        if fam == "setop":
            return gen_own.gen_setop(w, r)
        if fam == "setop_pure":
            return gen_own.gen_setop(w, r, pure=True)
        if fam == "listop":
            return gen_own.gen_listop(w, r)
        if fam == "listop_pure":
            return gen_own.gen_listop(w, r, pure=True)
        if fam == "setattr":
            return gen_own.gen_setattr(w, r)
        if fam == "attr_index":
            return gen_own.gen_setattr(w, r, kinds=("bi", "cb", "db"), attrs=INDEX_ATTRS)
        if fam == "attr_roundtrip":
            # A -> B (-> lookups may fall here) -> A on one indexed attribute, or add + remove
            # of one element: the same index key is added and discarded again between two lookups
            m = w.m
            if r.random() < 0.6:
                op = gen_own.gen_setattr(w, r, kinds=("bi", "cb", "db"), attrs=INDEX_ATTRS)
                if op is None:
                    return None
                cur = m.nodes[op["label"]].a[op["attr"]]
                if cur == op["value"]:
                    return None
                back = dict(op, value=cur)
                if m.nodes[op["label"]].kind == "bi" and op["attr"] == "size" and cur < op["value"]:
                    pass
                w.queue.extend([back] if r.random() < 0.6 else [dict(op, value=cur if r.random() < 0.5 else op["value"]), back])
                if r.random() < 0.3:
                    w.queue.append(dict(op))  # ... and forth again: an ODD number of changes of one key
                return op
            kids = [l for l, n in m.nodes.items() if n.kind in ("bi", "cb", "db") and n.parent is not None]
            c = gen_own.pick(r, kids)
            if c is None:
                return None
            p0 = m.nodes[c].parent
            others = [l for l in m.by_kind(m.nodes[p0].kind) if l != p0]
            mid = gen_own.pick(r, others) if others and r.random() < 0.5 else None
            w.queue.append({"op": "setparent", "child": c, "parent": p0})
            if r.random() < 0.3:
                w.queue.append({"op": "setparent", "child": c, "parent": mid})  # away - back - away again
            return {"op": "setparent", "child": c, "parent": mid}
        if fam == "visit":
            # an indexed node joins another container, leaves it again, and is edited while it is
            # a stranger there - all between two lookups of that container
            m = w.m
            kids = [l for l, n in m.nodes.items() if n.kind in ("bi", "cb", "db") and n.parent is not None]
            c = gen_own.pick(r, kids)
            if c is None:
                return None
            p0 = m.nodes[c].parent
            hosts = [l for l in m.by_kind(m.nodes[p0].kind) if l != p0 and len(m.kids(l)) >= 2]
            if not hosts:
                return None
            h = gen_own.pick(r, hosts)
            ed = gen_own.gen_setattr(w, r, kinds=(m.nodes[c].kind,), attrs=INDEX_ATTRS)
            if ed is None:
                return None
            ed = dict(ed, label=c)
            if ed["attr"] not in (("address", "size") if m.nodes[c].kind == "bi" else ("offset", "size")):
                return None
            w.queue.extend([{"op": "setparent", "child": c, "parent": p0 if r.random() < 0.6 else None}, ed])
            return {"op": "setparent", "child": c, "parent": h}
        if fam == "steal":
            # collection-side move of an indexed element: taken from a sibling owner that keeps
            # other members (its index sees only a removal it was never asked for), or a member
            # re-added to the collection that already owns it
            m = w.m
            kids = [l for l, n in m.nodes.items() if n.kind in ("bi", "cb", "db") and n.parent is not None and len(m.kids(n.parent)) >= 2]
            c = gen_own.pick(r, kids)
            if c is None:
                return None
            p0 = m.nodes[c].parent
            field = "blocks" if m.nodes[p0].kind == "bi" else "byte_intervals"
            sibs = [l for l in m.by_kind(m.nodes[p0].kind) if l != p0 and m.ir_of(l) == m.ir_of(p0)]
            tgt = p0 if (not sibs or r.random() < 0.3) else gen_own.pick(r, sibs)
            meth = r.choice(["add", "update", "ior"])
            args = [c] if meth == "add" else [[c]]
            op = {"op": "setop", "parent": tgt, "field": field, "method": meth, "args": args}
            if meth == "update":
                op["style"] = "list"
            return op
        if fam == "attr_sym":
            return gen_own.gen_setattr(w, r, kinds=("sym",))
        if fam == "se":
            from . import gen_index

            return gen_index.gen_se(w, r)
        if fam == "se_pure":
            from . import gen_index

            return gen_index.gen_se(w, r, pure=True)
        if fam == "cfg":
            from . import gen_misc

            return gen_misc.gen_cfg(w, r)
        if fam == "cfg_pure":
            from . import gen_misc

            return gen_misc.gen_cfg(w, r, pure=True)
        if fam == "bytes":
            from . import gen_misc

            return gen_misc.gen_bytes(w, r)
        if fam == "aux":
            from . import ops_aux

            x = r.random()
            if x < 0.04:
                return {"op": "foreign_serializer", "name": r.choice(["string", "uint8_t", "sequence", "UUID", "my_type", "mapping"]), "k": r.randrange(4)}
            if x < 0.10:
                ls = [l for l, n in w.m.nodes.items() if n.kind in ("ir", "mod")]
                if ls:
                    return {"op": "repr", "label": ls[r.randrange(len(ls))]}
            return ops_aux.gen_aux(w, r)
        if fam == "repr":
            ls = list(w.m.nodes)
            if not ls:
                return None
            return {"op": "repr", "label": ls[r.randrange(len(ls))]}
        if fam == "persist":
            from . import gen_persist

            if w.cfg.get("allow_copy") and r.random() < 0.35:
                irs = w.m.by_kind("ir")
                if irs:
                    w.next_id["twin"] += 1
                    return {"op": "copy", "ir": irs[r.randrange(len(irs))], "as": "K%d" % w.next_id["twin"], "how": r.choice(["deepcopy", "deepcopy", "pickle"])}
            x = r.random()
            if x < 0.5:
                op = gen_persist.gen_save(w, r)
                if op is not None and r.random() < w.cfg.get("p_enrich", 0.0):
                    # give the IR references of every kind first (entry points, referents,
                    # expressions, edges), then heal and save - all through the public API
                    ex = gen_persist.enrich_ops(w, r, op["ir"])
                    if ex:
                        w.queue.extend(ex[1:] + [{"op": "heal_then", "then": op}])
                        return ex[0]
                if op is not None and r.random() < w.cfg.get("p_heal", 0.7):
                    hs = gen_persist.heal_ops(w, op["ir"])
                    if hs:
                        w.queue.extend(hs[1:] + [op])
                        return hs[0]
                return op
            if x < 0.8:
                return gen_persist.gen_load(w, r)
            return gen_persist.gen_restart(w, r)
        if fam == "peer":
            from . import gen_persist

            op = gen_persist.gen_peer_write(w, r)
            if op is not None:
                hs = gen_persist.heal_ops(w, op["from"])
                ld = gen_persist.gen_load(w, r)
                follow = [op]
                w.next_id["twin"] += 1
                follow.append({"op": "load", "path": op["path"], "as": "P%d" % w.next_id["twin"], "flavor": r.choice(["path", "stream"])})
                w.queue.extend((hs + follow)[1:])
                return (hs + follow)[0]
            return None
        return self.gen_more(w, r, fam)

    def gen_more(self, w, r, fam):
        return None


@profile
class C03(OwnProfile):
    runs_quick = 8000
    runs_thorough = 240000
    prop = "C03"
    resync_on_divergence = True
    rule = (
        "one evaluation = one seeded ownership history (30-100 public mutations over up to 3 IRs, "
        "from both ends of the 6 containment relations); after every step every IR's get_by_uuid is "
        "probed with every UUID the world has ever seen. Non-trivial: the history moved a subtree of "
        ">=2 nodes between two parents or ran a parent-end bulk operation; distinct by op-kind sequence hash."
    )

    def after(self, w, op, out):
        inv_c03(w)
        if op["op"] in ("setparent", "setop", "listop", "new"):
            self._note_move(w, op)

    def _note_move(self, w, op):
        if op["op"] == "setop" and op["method"] in ("update", "ior", "ixor", "iand", "isub", "clear"):
            w.counters["probe:bulk"] += 1
        if op["op"] == "listop" and op["method"] in ("extend", "iadd", "setslice", "delslice", "clear", "reverse"):
            w.counters["probe:bulk"] += 1
        if op["op"] == "setparent" and op.get("parent"):
            if len(w.m.subtree(op["child"])) >= 2:
                w.counters["probe:subtree_move"] += 1

    def nontrivial(self, w):
        return w.counters["probe:bulk"] > 0 or w.counters["probe:subtree_move"] > 0


@profile
class C04(OwnProfile):
    runs_quick = 7000
    runs_thorough = 200000
    prop = "C04"
    base = dict(OWN_BASE, se=1.0, cfg=0.5)
    rule = (
        "one evaluation = one seeded ownership history interleaved with attribute edits on bystanders; "
        "after every step the forest invariants are scanned from both ends and every labeled node is "
        "compared with the reference model (bystanders unchanged). Non-trivial: >=1 move of an owned "
        "node to another parent; distinct by op-kind sequence hash."
    )

    def gen_family(self, w, r, fam):
        # "separately constructed nodes never share ... attributes": two intervals built from ONE
        # caller-owned bytearray, which the caller goes on editing
        if fam == "new" and r.random() < 0.06:
            k = "s%d" % r.randrange(2)
            buf = w.shared_bytes.get(k)
            data = bytes(buf).hex() if buf is not None and len(buf) <= 12 else bytes(r.randrange(256) for _ in range(r.randrange(1, 5))).hex()
            n = len(data) // 2
            op = {"op": "new", "kind": "bi", "label": w.fresh("bi"), "uuid": r.getrandbits(128), "shared": k,
                  "attrs": {"contents": data, "size": n + r.randrange(0, 6)}}
            secs = w.m.by_kind("sec")
            if secs and r.random() < 0.7:
                op["parent"] = secs[r.randrange(len(secs))]
            return op
        if fam == "setattr" and w.shared_bytes and r.random() < 0.3:
            bis = w.m.by_kind("bi")
            if bis:
                return {"op": "bytes", "bi": bis[0], "method": "poke_shared", "args": [sorted(w.shared_bytes)[r.randrange(len(w.shared_bytes))]]}
        return super().gen_family(w, r, fam)

    def after(self, w, op, out):
        inv_c04(w)
        if w.deferred is None:
            d = OPS[op["op"]]
            compare_model(w, d.touched(w, op), ("C04",))

    def nontrivial(self, w):
        return w.counters["fam:own_child"] + w.counters["fam:own_set"] + w.counters["fam:own_list"] >= 3


@profile
class C16(OwnProfile):
    runs_quick = 8000
    runs_thorough = 240000
    prop = "C16"
    base = dict(OWN_BASE, setop=6.0, setop_pure=4.0, listop=5.0, listop_pure=2.0, setparent=1.5, se=4.0, se_pure=2.0)
    rule = (
        "one evaluation = one seeded history of collection calls (mutable set / sequence interface incl. mixins, "
        "failing calls, raising iterables) run side by side with built-in set/list on labels; compared: return "
        "value, exception class, resulting contents, ownership untouched by pure operators. Non-trivial: >=5 "
        "collection calls of >=3 different methods; distinct by op-kind sequence hash."
    )

    def config(self, r):
        c = super().config(r)
        c["p_raising_iter"] = r.choice([0.05, 0.15, 0.3])
        c["p_se_junk_key"] = r.choice([0.0, 0.03, 0.08])
        return c

    def after(self, w, op, out):
        if w.deferred is not None:
            return
        d = OPS[op["op"]]
        if op["op"] in ("setop", "listop", "se"):
            w.counters["meth:" + op["op"] + "." + op["method"]] += 1
            compare_model(w, d.touched(w, op), ("C16",), owner_others=("C16",))
            if out is not None and out.kind == "exc":
                # a failed operation leaves the collection and its elements consistent
                try:
                    inv_c03_c04_as(w, "C16")
                finally:
                    pass
        else:
            compare_model(w, d.touched(w, op), (), owner_others=())

    def nontrivial(self, w):
        meths = [k for k in w.counters if k.startswith("meth:")]
        return len(meths) >= 3 and sum(w.counters[k] for k in meths) >= 5


def inv_c03_c04_as(w, prop):
    """Run the C03/C04 structural invariants but charge a failure to `prop`
    (used for 'a failed operation leaves the collection consistent')."""
    from .core import Diverged, Violation

    saved = w.prop
    w.prop = ("C03", "C04")
    try:
        inv_c03(w)
        inv_c04(w)
    except Violation as v:
        w.prop = saved
        raise Violation(prop, "after_failure:" + v.check, v.detail)
    finally:
        w.prop = saved


# ---------------------------------------------------------------------------
# index profiles: an edit task and a lookup task on one world

from . import gen_index  # noqa: E402

INDEX_BASE = {
    "new": 4.0,
    "setparent": 3.0,
    "setop": 3.0,
    "listop": 0.7,
    "attr_index": 6.0,
    "attr_roundtrip": 1.5,
    "steal": 1.5,
    "visit": 1.0,
    "setattr": 0.5,
    "se": 2.0,
    "persist": 0.6,
    "repr": 0.3,
}
INDEX_ATTRS = ("offset", "size", "address")


class IndexProfile(OwnProfile):
    name = "index"
    resync_on_divergence = True
    base = INDEX_BASE
    lookup_props = ("C05", "C06", "C13")
    keep = ("new", "attr_index")

    def config(self, r):
        c = super().config(r)
        c["steps"] = r.randrange(30, 100)
        c["weights"] = swarm_weights(r, self.base, keep=self.keep)
        c["lookup_mode"] = r.choice(["sparse", "dense", "every", "bursts", "bursts"])
        c["burst_len"] = r.choice([2, 3, 6])
        c["p_lookup"] = {"sparse": 0.1, "dense": 0.5, "every": 0.5, "bursts": 0.08}[c["lookup_mode"]]
        c["kind_weights"] = {"ir": 0.4, "mod": 0.6, "sec": 1.0, "bi": 2.0, "cb": 2.5, "db": 2.0, "px": 0.2, "sym": 0.6}
        c["p_addr_none"] = r.choice([0.1, 0.25])
        c["p_boundary"] = r.choice([0.0, 0.1, 0.2])
        c["p_addr_negative"] = r.choice([0.0, 0.0, 0.05])
        # dense worlds (few containers, many members: incremental index replay needs more
        # members than pending events) vs. scattered ones
        if r.random() < 0.6:
            c["max_ir"], c["max_mod"], c["max_sec"] = 1, r.choice([1, 2]), r.choice([1, 2, 3])
            c["p_ctor_parent"] = r.choice([0.8, 0.95])
            c["p_detach"] = 0.08
        c["addr_hi"] = r.choice([12, 40])
        c["size_hi"] = r.choice([6, 12])
        c["off_hi"] = r.choice([8, 14])
        c["allow_shrink"] = True
        return c

    def begin(self, w):
        w.burst_left = 0
        w.phase = 0  # 0: no lookup yet, 1: lookup seen, 2: edit after lookup, 3: lookup after that

    def gen(self, w):
        r = w.rs.ops
        rl = w.rs.lookups
        if len(w.m.nodes) >= 4:
            do = False
            if w.burst_left > 0:
                w.burst_left -= 1
                do = True
            elif rl.random() < w.cfg["p_lookup"]:
                do = True
                if w.cfg["lookup_mode"] == "bursts":
                    w.burst_left = w.cfg["burst_len"] - 1
            if do:
                for _ in range(4):
                    op = gen_index.gen_lookup(w, rl, props=self.lookup_props)
                    if op is not None and self._ready(w, op):
                        return op
        return super().gen(w)

    def gen_family(self, w, r, fam):
        return super().gen_family(w, r, fam)

    def after(self, w, op, out):
        if op["op"] == "lookup":
            if out is not None:
                if w.phase == 0:
                    w.phase = 1
                elif w.phase == 2:
                    w.phase = 3
        elif out is not None and w.phase == 1 and op["op"] in ("setattr", "setparent", "setop", "new", "se", "listop"):
            w.phase = 2

    def nontrivial(self, w):
        return w.phase == 3

    def extra_coverage(self, results, tot):
        return {
            "lookups_judged": {k[7:]: v for k, v in tot.items() if k.startswith("lookup:")},
            "lazy_tree_branches": {k[7:]: v for k, v in tot.items() if k.startswith("branch:")},
        }


@profile
class C05(IndexProfile):
    runs_quick = 16000
    runs_thorough = 480000
    prop = "C05"
    lookup_props = ("C05",)
    rule = (
        "one evaluation = one run of two cooperating tasks on one world: an edit task (block offset/size, interval "
        "address/size, add/remove/move of blocks, intervals, sections, modules) and a lookup task woken between edits "
        "by the scheduler (sparse / dense / every step / bursts). Every block lookup at every scope is compared with "
        "a must/may fresh scan of the live structure. Non-trivial: a lookup was issued after an index-affecting edit "
        "that followed an earlier lookup; distinct by op-kind sequence hash."
    )


@profile
class C06(IndexProfile):
    runs_quick = 16000
    runs_thorough = 480000
    prop = "C06"
    lookup_props = ("C06",)
    base = dict(INDEX_BASE, attr_index=7.0, se=0.3)
    rule = (
        "as C05 with byte_intervals_on/at, sections_on/at and Section.address/size as the lookup task; the edit task "
        "favours interval address (to/from None) and size edits, moves, removal and re-adding. Oracle: scan of the live "
        "structure and the statement's extent formula. Non-trivial/distinct as C05."
    )

    def config(self, r):
        c = super().config(r)
        c["kind_weights"] = {"ir": 0.4, "mod": 0.8, "sec": 1.5, "bi": 3.0, "cb": 0.6, "db": 0.4, "px": 0.1, "sym": 0.2}
        c["p_addr_none"] = r.choice([0.15, 0.3])
        return c


@profile
class C13(IndexProfile):
    runs_quick = 16000
    runs_thorough = 480000
    prop = "C13"
    lookup_props = ("C13",)
    base = dict(INDEX_BASE, se=7.0, attr_index=3.0)
    keep = ("new", "se")
    rule = (
        "as C05 with symbolic_expressions_at[_offset] as the lookup task and every mutable-mapping operation on "
        "symbolic_expressions (item set/delete, pop, popitem, setdefault, update, clear, whole-mapping assignment) plus "
        "interval address changes and moves as the edit task. Interval scope exact and ordered by offset, outer scopes "
        "must/may. Non-trivial/distinct as C05."
    )

    def config(self, r):
        c = super().config(r)
        c["kind_weights"] = {"ir": 0.4, "mod": 0.6, "sec": 1.0, "bi": 2.5, "cb": 0.3, "db": 0.3, "px": 0.1, "sym": 2.0}
        return c


# ---------------------------------------------------------------------------
# sym / cfg / bytes profiles

from .ops_misc import inv_c10, inv_c11, inv_c19  # noqa: E402


@profile
class C10(OwnProfile):
    runs_quick = 12000
    runs_thorough = 360000
    prop = "C10"
    resync_on_divergence = True
    name = "sym"
    base = {"new": 4.0, "setparent": 4.0, "setop": 3.0, "attr_sym": 7.0, "listop": 0.7, "setattr": 0.5, "persist": 0.5}
    keep = ("new", "attr_sym")
    rule = (
        "one evaluation = one seeded history of symbol add/remove/move, renames (incl. to '' and to shared names), payload "
        "switches block/proxy/int(0)/None and block/proxy/section/module moves; after every step symbols_named is compared "
        "for every module x every name in use (plus unused ones) and references for every block and proxy, against scans of "
        "the live structure. Non-trivial: >=1 rename and >=1 payload switch and >=1 move of a symbol or referent; distinct by op-kind sequence hash."
    )

    def config(self, r):
        c = super().config(r)
        c["steps"] = r.randrange(40, 80)
        c["kind_weights"] = {"ir": 0.3, "mod": 1.2, "sec": 0.7, "bi": 0.7, "cb": 1.0, "db": 0.8, "px": 1.0, "sym": 3.0}
        return c

    def after(self, w, op, out):
        inv_c10(w)
        if op["op"] == "setattr" and w.m.nodes.get(op["label"]) is not None and w.m.nodes[op["label"]].kind == "sym":
            if op["attr"] == "name":
                w.counters["probe:rename"] += 1
            if op["attr"] in ("referent", "value"):
                w.counters["probe:payload_switch"] += 1
        if op["op"] in ("setparent", "setop"):
            w.counters["probe:moves"] += 1

    def nontrivial(self, w):
        return w.counters["probe:rename"] > 0 and w.counters["probe:payload_switch"] > 0 and w.counters["probe:moves"] > 0


@profile
class C11(OwnProfile):
    runs_quick = 6000
    runs_thorough = 180000
    prop = "C11"
    name = "cfg"
    base = {"new": 2.5, "setparent": 1.5, "cfg": 8.0, "cfg_pure": 2.0, "setop": 0.7, "listop": 0.4, "persist": 0.5}
    keep = ("new", "cfg")
    rule = (
        "one evaluation = one seeded history of set operations on ir.cfg (add/discard/remove/pop/clear/update and in-place "
        "operators, over attached and free nodes, self-loops, parallel edges differing in label, None vs all-false label) run "
        "side by side with a Python set of (source,target,label); after every step membership, length, iteration multiset, "
        "out_edges/in_edges for every node and block incoming/outgoing_edges equal the reference. Non-trivial: >=5 CFG "
        "mutations of >=3 kinds; distinct by op-kind sequence hash."
    )

    def config(self, r):
        c = super().config(r)
        c["steps"] = r.randrange(40, 80)
        c["kind_weights"] = {"ir": 0.8, "mod": 1.0, "sec": 0.8, "bi": 0.8, "cb": 3.0, "db": 0.2, "px": 2.0, "sym": 0.1}
        c["p_cfg_none_endpoint"] = r.choice([0.0, 0.02, 0.05])
        return c

    def after(self, w, op, out):
        if op["op"] == "cfg":
            w.counters["meth:cfg." + op["method"]] += 1
        if w.deferred is None:
            inv_c11(w)

    def nontrivial(self, w):
        ms = [k for k in w.counters if k.startswith("meth:cfg.") and k[9:] in CfgMUT]
        return len(ms) >= 3 and sum(w.counters[k] for k in ms) >= 5


CfgMUT = ("add", "discard", "remove", "pop", "clear", "update", "ior", "isub", "iand", "ixor")


@profile
class C19(OwnProfile):
    runs_quick = 16000
    runs_thorough = 480000
    prop = "C19"
    name = "bytes"
    base = {"new": 3.0, "bytes": 7.0, "attr_index": 6.0, "setparent": 1.5, "setop": 0.7, "persist": 1.0}
    keep = ("new", "bytes", "attr_index")
    rule = (
        "one evaluation = one seeded history of size / initialized_size assignments (initialized_size never above size), "
        "whole and in-place contents edits within size, block offset/size edits (blocks partly or wholly beyond the stored "
        "bytes), interval address edits, interleaved with save/restart; after every step: initialized_size == len(contents) "
        "<= size, byte-array model equality, block address / contents / contains_offset / contains_address at probe points "
        "around both ends; constructor rejects more bytes than size; every state saves and loads back. Non-trivial: >=1 "
        "size shrink below the stored byte count or >=1 initialized_size change, and >=1 block partly beyond the stored bytes; "
        "distinct by op-kind sequence hash."
    )

    def config(self, r):
        c = super().config(r)
        c["steps"] = r.randrange(30, 60)
        c["kind_weights"] = {"ir": 0.3, "mod": 0.4, "sec": 0.7, "bi": 3.0, "cb": 1.5, "db": 1.5, "px": 0.0, "sym": 0.1}
        c["allow_shrink"] = True
        c["size_hi"] = r.choice([6, 12, 20])
        c["off_hi"] = r.choice([6, 14])
        c["p_bad_ctor"] = r.choice([0.0, 0.05, 0.1])
        return c

    def gen_family(self, w, r, fam):
        if fam == "new" and r.random() < w.cfg.get("p_bad_ctor", 0):
            # construction with more stored bytes than the size: must be rejected
            n = r.randrange(1, 6)
            op = {"op": "new", "kind": "bi", "label": w.fresh("bi"), "uuid": r.getrandbits(128),
                  "attrs": {"contents": bytes(r.randrange(256) for _ in range(n)).hex(), "size": r.randrange(0, n)}}
            # ... also when it was asked to join a section and to adopt blocks: a rejected
            # construction must leave no trace in either
            secs = w.m.by_kind("sec")
            if secs and r.random() < 0.6:
                op["parent"] = secs[r.randrange(len(secs))]
            blks = w.m.by_kind("cb", "db")
            if blks and r.random() < 0.5:
                op["kids"] = {"blocks": r.sample(blks, min(len(blks), r.randrange(1, 3)))}
                op["kids_style"] = "list"
            return op
        if fam == "new" and r.random() < 0.15:
            # two intervals built from ONE caller-owned bytearray, which the caller may edit later
            k = "s%d" % r.randrange(2)
            buf = w.shared_bytes.get(k)
            data = bytes(buf).hex() if buf is not None and len(buf) <= 12 else bytes(r.randrange(256) for _ in range(r.randrange(1, 5))).hex()
            n = len(data) // 2
            op = {"op": "new", "kind": "bi", "label": w.fresh("bi"), "uuid": r.getrandbits(128), "shared": k,
                  "attrs": {"contents": data, "size": n + r.randrange(0, 6)}}
            secs = w.m.by_kind("sec")
            if secs and r.random() < 0.7:
                op["parent"] = secs[r.randrange(len(secs))]
            return op
        if fam == "bytes" and w.shared_bytes and r.random() < 0.1:
            bis = w.m.by_kind("bi")
            if bis:
                return {"op": "bytes", "bi": bis[0], "method": "poke_shared", "args": [sorted(w.shared_bytes)[r.randrange(len(w.shared_bytes))]]}
        if fam == "new" and r.random() < 0.2:
            n = r.randrange(0, 5)
            size = n + r.randrange(0, 5)
            return {"op": "new", "kind": "bi", "label": w.fresh("bi"), "uuid": r.getrandbits(128),
                    "attrs": {"contents": bytes(r.randrange(256) for _ in range(n)).hex(), "size": size, "initialized_size": r.randrange(0, size + 1)}}
        return super().gen_family(w, r, fam)

    def after(self, w, op, out):
        if w.deferred is not None:
            return
        inv_c19(w)
        if op["op"] == "setattr" and op["attr"] == "size":
            n = w.m.nodes.get(op["label"])
            if n is not None and n.kind == "bi":
                w.counters["probe:bi_size_set"] += 1
        if op["op"] == "bytes" and op["method"] == "init_size":
            w.counters["probe:init_size_set"] += 1
        for kl in w.m.by_kind("cb", "db"):
            k = w.m.nodes[kl]
            if k.parent and k.a["offset"] + k.a["size"] > len(w.m.nodes[k.parent].a["contents"]) and k.a["size"] > 0:
                w.counters["probe:block_beyond_bytes"] += 1
                break

    def nontrivial(self, w):
        return (w.counters["probe:bi_size_set"] + w.counters["probe:init_size_set"]) > 0 and w.counters["probe:block_beyond_bytes"] > 0


# ---------------------------------------------------------------------------
# persistence profiles

PERSIST_BASE = {
    "new": 7.0,
    "setparent": 2.0,
    "setop": 1.5,
    "listop": 0.7,
    "setattr": 3.0,
    "attr_index": 1.0,
    "se": 2.0,
    "cfg": 2.0,
    "aux": 2.5,
    "bytes": 0.7,
    "persist": 3.0,
    "peer": 0.6,
    "repr": 0.5,
}


class PersistProfile(OwnProfile):
    name = "persist"
    base = PERSIST_BASE
    keep = ("new", "persist")
    chunk = 10
    runs_quick = 2500
    runs_thorough = 60000
    timeout_owner = ("C01", "C17")

    def config(self, r):
        c = super().config(r)
        c["steps"] = r.randrange(40, 110)
        c["boot"] = r.choice([8, 15, 25, 35])
        c["weights"] = swarm_weights(r, self.base, keep=self.keep, off_p=0.2)
        c["p_heal"] = r.choice([0.5, 0.8, 1.0])
        c["p_enrich"] = r.choice([0.0, 0.3, 0.6])
        c["p_boundary"] = r.choice([0.05, 0.15, 0.3])
        c["aux_depth"] = r.choice([1, 2, 3, 4])
        c["prefer_local_refs"] = True
        c["max_ir"] = 2
        c["p_ctor_parent"] = r.choice([0.8, 0.95])
        c["p_attached_parent"] = r.choice([0.7, 0.9])
        c["p_detach"] = r.choice([0.05, 0.15])
        c["kind_weights"] = {"ir": 0.5, "mod": 1.0, "sec": 1.2, "bi": 1.5, "cb": 1.5, "db": 1.0, "px": 0.8, "sym": 1.5}
        return c

    def gen(self, w):
        if w.step < w.cfg.get("boot", 0) and not w.queue:
            r = w.rs.ops
            if not w.m.by_kind("ir"):
                return {"op": "new", "kind": "ir", "label": w.fresh("ir"), "uuid": r.getrandbits(128), "attrs": {}}
            for _ in range(4):
                op = gen_own.gen_new(w, r)
                if op is not None and self._ready(w, op):
                    return op
        return super().gen(w)

    def after(self, w, op, out):
        if op["op"] in ("load", "restart") and out is not None:
            w.counters["probe:gen_after_load"] = 1
            w.mut_after_load = 0
            # the scheduler places first reads (lazy decodes) of loaded tables: some right
            # away, the rest whenever the aux family comes up
            r = w.rs.lookups
            cands = [(c, nme) for c in w.m.by_kind("ir", "mod") for nme, t in w.m.nodes[c].a["aux"].items() if t.get("raw") is not None and t["state"] == "untouched"]
            for c, nme in cands:
                if r.random() < w.cfg.get("p_read_after_load", 0.3) and len(w.queue) < 4:
                    w.queue.append({"op": "aux_read", "c": c, "name": nme})
        elif op["op"] == "save":
            if getattr(w, "mut_after_load", 0) > 0 and w.counters["probe:gen_after_load"]:
                w.counters["probe:save_after_mutation_after_load"] += 1
        elif out is not None and op["op"] not in ("lookup", "aux_read"):
            w.mut_after_load = getattr(w, "mut_after_load", 0) + 1

    def nontrivial(self, w):
        return w.counters["probe:loads_checked"] > 0 and w.counters["probe:save_after_mutation_after_load"] > 0

    def extra_coverage(self, results, tot):
        return {"persistence": {k[6:]: v for k, v in tot.items() if k.startswith("probe:") and ("save" in k or "load" in k or "restart" in k or "peer" in k or "aux" in k)}}

    def assumptions(self):
        return Profile.assumptions(self) + [
            "refcodec (written from AuxData.hpp / AuxData.md) and the peer's field-by-field message builder are trusted stand-ins for 'another GTIRB implementation'",
            "fault-free disk configuration: closing the file makes all written bytes durable",
        ]


@profile
class C01(PersistProfile):
    runs_quick = 7000
    runs_thorough = 200000
    prop = "C01"
    rule = (
        "one evaluation = one seeded edit history with save / load (twin IR) / crash-restart (drop every object, reload the "
        "latest file of every saved IR; model rolls back to the snapshot taken at that save) placed by the scheduler, over up "
        "to several generations, through the path API and the stream API of a simulated disk. At every load of a file saved "
        "from a self-contained state: loaded IR == snapshot model (every node, attribute, containment, payloads, expressions, "
        "edges, AuxData type names and decoded values), deep_eq both ways with the live original, re-save gives the same "
        "content. Non-trivial: >=1 checked load and >=1 save that followed a mutation that followed a load; distinct by "
        "op-kind sequence hash."
    )


@profile
class C02(PersistProfile):
    runs_quick = 7000
    runs_thorough = 200000
    prop = "C02"
    base = dict(PERSIST_BASE, peer=2.5)
    keep = ("new", "persist", "peer")
    rule = (
        "writer direction: at every save the bytes on the simulated disk are parsed with the message classes generated from "
        "/repo/proto and compared field by field with the model (header, uuids, module list order, enum numbers by schema "
        "name, has_address, one-ofs, attribute flags, cfg.vertices == all CFG nodes, edges with label presence). Reader "
        "direction: a foreign peer (fills the generated messages field by field, never gtirb's writer; permuted repeated "
        "fields, explicit defaults, stale address with has_address=false, every enum constant of the schema swept by number) "
        "writes files that gtirb loads; loaded attributes must equal the peer's spec. Non-trivial: >=1 save checked and >=1 "
        "peer file loaded; distinct by op-kind sequence hash."
    )

    def config(self, r):
        c = PersistProfile.config(self, r)
        c["cross_module_refs"] = r.choice(["none", "backward", "backward"])
        # the writer half speaks about EVERY in-memory IR, also one whose interval stores more
        # bytes than its size (initialized_size / contents assigned above size: outside C01's
        # and C19's domain, so nothing is said about loading such a file)
        c["allow_overlong"] = r.random() < 0.5
        c["allow_ir_version"] = r.random() < 0.5
        return c

    def nontrivial(self, w):
        return w.counters["probe:saves"] > 0 and w.counters["probe:peer_files"] > 0 and w.counters["probe:loads_checked"] > 0

    def extra_coverage(self, results, tot):
        d = PersistProfile.extra_coverage(self, results, tot)
        sw = {}
        for k, v in tot.items():
            if k.startswith("enum:"):
                _, which, num = k.split(":")
                sw.setdefault(which, {})[int(num)] = v
        d["schema_enum_constants_swept_by_peer"] = {w_: {"distinct_constants": len(c), "loads": sum(c.values())} for w_, c in sorted(sw.items())}
        return d


@profile
class C09(PersistProfile):
    runs_quick = 5000
    runs_thorough = 200000
    prop = "C09"
    base = dict(PERSIST_BASE, peer=1.5, aux=3.0, cfg=3.0, se=3.0)
    rule = (
        "at every load (own or peer file, twin or restart) the containment walk gives uuid -> object; symbol referents, entry "
        "points, edge endpoints (via ir.cfg, out/in_edges and block incoming/outgoing_edges) and expression symbols must be "
        "'is'-identical to the walked objects; AuxData UUID/Offset entries are read at a scheduled later time and must be the "
        "attached node object or a plain UUID. Non-trivial: >=1 load checked with the IR holding >=1 reference; distinct by "
        "op-kind sequence hash. (Negative direction - dangling / ill-typed reference -> DeserializationError - is decided by "
        "the fault enumeration shared with C17.)"
    )

    def config(self, r):
        c = PersistProfile.config(self, r)
        c["cross_module_refs"] = r.choice(["none", "backward", "backward"])
        if r.random() < 0.35:
            # table-centred runs: many lazily decoded tables naming few nodes, with nodes leaving
            # and joining the IR between the reads (decode time relative to attach / detach)
            c["weights"] = swarm_weights(r, {"new": 3.0, "setparent": 3.0, "setattr": 0.5, "aux": 12.0, "persist": 5.0, "peer": 1.5, "setop": 1.0}, keep=self.keep, off_p=0.1)
            c["boot"] = r.choice([4, 8, 12])
            c["kind_weights"] = {"ir": 0.8, "mod": 1.5, "sec": 0.6, "bi": 0.6, "cb": 0.8, "db": 0.5, "px": 0.5, "sym": 0.8}
        return c

    def nontrivial(self, w):
        return w.counters["c09:loads_checked"] > 0


AUX_BASE = {"new": 3.0, "setparent": 1.0, "setattr": 0.5, "aux": 10.0, "persist": 5.0, "peer": 1.5, "setop": 0.5}


class AuxProfile(PersistProfile):
    name = "aux"
    base = AUX_BASE
    keep = ("new", "aux", "persist")

    def config(self, r):
        c = super().config(r)
        c["steps"] = r.randrange(40, 100)
        c["boot"] = r.choice([4, 8, 12])
        c["kind_weights"] = {"ir": 0.8, "mod": 1.5, "sec": 0.6, "bi": 0.6, "cb": 0.8, "db": 0.5, "px": 0.5, "sym": 0.8}
        c["aux_depth"] = r.choice([1, 2, 3, 4])
        c["p_bad_aux"] = r.choice([0.0, 0.1, 0.25])
        return c

    def nontrivial(self, w):
        return w.counters["probe:aux_saved_encoded"] + w.counters["probe:aux_saved_untouched"] > 0 and w.counters["probe:loads_checked"] > 0


@profile
class C14(AuxProfile):
    runs_quick = 5000
    runs_thorough = 150000
    prop = "C14"
    rule = (
        "one evaluation = one seeded history over AuxData tables of known, unknown and partially unknown type names "
        "(incl. peer-written non-canonical but decodable encodings and arbitrary bytes for unknown parts): {leave, read, "
        "mutate in place, assign data, assign type_name, delete} placed by the scheduler relative to save / load / "
        "crash-restart over several generations. Per table a small state machine (raw -> read/mutated/assigned/retyped); "
        "oracle on the message taken from the simulated disk: type name current; untouched -> bytes identical; unknown "
        "name reached -> bytes identical even after a read; otherwise reference-decoded bytes == current value. "
        "Non-trivial: >=1 table judged at a save and >=1 checked load in the run; distinct by op-kind sequence hash."
    )


@profile
class C07(AuxProfile):
    runs_quick = 5000
    runs_thorough = 150000
    prop = "C07"
    base = dict(AUX_BASE, aux=12.0, setparent=2.5, setop=1.0)
    rule = (
        "one evaluation = one seeded history that creates tables of random type trees (every leaf type at both bounds, "
        "Unicode strings, NaN/inf/-0.0, nesting to depth 4, every variant alternative), sends them through 1-4 save / "
        "restart generations (also written by the peer), and reads them at scheduler-chosen times relative to "
        "attach/detach/move operations: value equality (doubles bit for bit, float32 NaN as NaN), exact consumption "
        "(reference decode of the written bytes consumes all of them), UUID/Offset entries naming a node attached to the "
        "loading IR at decode time are that object, others plain UUIDs. Honest scoping: decode(encode(v)) == v is a pure "
        "function; the simulator contributes the lazy-decode schedule, the persistence path and the peer. Non-trivial as C14."
    )

    def nontrivial(self, w):
        return w.counters["probe:aux_lazy_decode"] > 0 and AuxProfile.nontrivial(self, w)


@profile
class C08(AuxProfile):
    runs_quick = 5000
    runs_thorough = 150000
    prop = "C08"
    base = dict(AUX_BASE, peer=4.0)
    keep = ("new", "aux", "persist", "peer")
    rule = (
        "two-party setting: (a) every table gtirb writes to the simulated disk is decoded by the reference codec (written "
        "from AuxData.hpp) and must give the model value; for types without set/mapping the bytes must equal the reference "
        "encoding byte for byte; (b) every table the peer wrote (reference encoder, permuted element order, repeated "
        "elements) is decoded by gtirb at a scheduled time and must give the model value; (c) after the batch, the "
        "repository's Java codecs (javac-built from the working tree) decode a sample of gtirb's tables and gtirb decodes "
        "what they re-encode (coverage.java_stage). Non-trivial: >=1 table byte-compared or reference-decoded at a save and >=1 "
        "peer-written table read; distinct by op-kind sequence hash."
    )

    def nontrivial(self, w):
        return w.counters["probe:aux_saved_encoded"] > 0 and w.counters["probe:peer_files"] > 0

    def config(self, r):
        c = AuxProfile.config(self, r)
        c["collect_java"] = True
        return c

    def post_batch(self, results, pools, build_dir, seed):
        from .javastage import run_stage

        samples = []
        for d in results:
            samples.extend((d.get("extras") or {}).get("java", []))
        return run_stage(samples[:20000], pools, build_dir)
