"""Profiles: workload mix + decisive oracle set per property."""
from . import gen_own
from .ops import OPS
from .oracle_own import compare_model, inv_c03, inv_c04
from .core import Seams

REGISTRY = {}


def profile(cls):
    REGISTRY[cls.prop] = cls
    return cls


class Profile:
    prop = None
    name = "?"
    timeout_owner = ()
    level = "exploration"
    rule = ""
    # quick/thorough run counts (per check), tuned to the wall budgets
    runs_quick = 8000
    runs_thorough = 240000

    chunk = 20
    wall_quick = 75.0
    wall_thorough = 1500.0
    components = {
        "real": ["gtirb (built from /repo working tree)", "protobuf runtime (upb and pure-Python backends)", "intervaltree", "sortedcontainers", "networkx"],
        "stub": ["uuid4 (seeded)", "SetWrapper iteration order (seeded permutation)", "open()/file streams (SimDisk)"],
    }

    def config(self, r):
        return {"steps": r.randrange(30, 100), "order_mode": r.choice(Seams.ORDER_MODES)}

    def run(self, ctx, seed, run, ops=None, cfg=None):
        from .sim import run_one

        return run_one(ctx, self, seed, run, ops=ops, cfg=cfg)

    def shrink(self, ctx, seed, run, cfg, ops, violation):
        from .sim import shrink

        return shrink(ctx, self, seed, run, cfg, ops, violation)

    def evidence(self, prop, tier, seed, results, wall, cut, lo, hi, jobs, pools_info=()):
        from collections import Counter

        tot = Counter()
        for d in results:
            for k, v in d["counters"].items():
                tot[k] += v
        nontriv = {d["kind_seq_hash"] for d in results if d["nontrivial"] and not d["aborted"]}
        states = {d["state_hash"] for d in results}
        steps = sum(d["steps"] for d in results)
        samples = []
        for d in results:
            if "ops" in d and len(samples) < 2:
                samples.append({"run": d["run"], "backend": "upb" if d["run"] % 2 == 0 else "python", "cfg": d.get("cfg"), "ops": d["ops"][:40], "n_ops": len(d["ops"]), "event_log_tail": d.get("tail")})
        cpu = sum(d["cpu"] for d in results)
        n = len(results)
        cov = {
            "evaluations": n,
            "distinct_nontrivial": len(nontriv),
            "rule": self.rule,
            "samples": samples,
            "steps": steps,
            "simulated_time_steps": steps,
            "runs_per_hour": int(n / wall * 3600) if wall > 0 else 0,
            "seeds_per_hour": int(n / wall * 3600) if wall > 0 else 0,
            "cpu_s": round(cpu, 2),
            "run_index_range": [lo, hi],
            "wall_cap_hit": bool(cut),
            "aborted_runs": sum(1 for d in results if d["aborted"]),
            "distinct_interleavings_by_opkind_sequence": len({d["kind_seq_hash"] for d in results}),
            "distinct_final_model_states": len(states),
            "op_family_histogram": {k[4:]: v for k, v in sorted(tot.items()) if k.startswith("fam:")},
            "op_histogram": {k[3:]: v for k, v in sorted(tot.items()) if k.startswith("op:")},
            "method_histogram": {k[5:]: v for k, v in sorted(tot.items()) if k.startswith("meth:")},
            "fault_kinds_fired": {k[6:]: v for k, v in sorted(tot.items()) if k.startswith("fault:")},
            "reach_probes": {k[6:]: v for k, v in sorted(tot.items()) if k.startswith("probe:")},
            "skipped_ops": tot.get("skip", 0),
            "seam_set_iterations": tot.get("seam:iter_calls", 0),
            "seam_set_iterations_permuted": tot.get("seam:permuted", 0),
            "backend_split": {"upb": sum(1 for d in results if d["run"] % 2 == 0), "python": sum(1 for d in results if d["run"] % 2 == 1)},
            "workers": jobs,
            "components": self.components,
            "exhaustive": False,
        }
        cov.update(self.extra_coverage(results, tot))
        return {
            "property_id": prop,
            "tier": tier,
            "seed": seed,
            "level": self.level,
            "coverage": cov,
            "assumptions": self.assumptions(),
            "wall_s": round(wall, 2),
            "violations": 0,
        }

    def extra_coverage(self, results, tot):
        return {}

    def assumptions(self):
        return [
            "sampling: a clean batch is evidence for the histories, schedules and faults drawn, not a proof",
            "the reference model (one parent pointer per node, Python built-ins) and the live-structure scans are trusted",
            "miniprotoc (pure-Python proto3 -> descriptor) stands in for protoc, which is not installed",
        ]

    def begin(self, w):
        pass

    def gen(self, w):
        raise NotImplementedError

    def after(self, w, op, out):
        pass

    def finish(self, w):
        pass

    def nontrivial(self, w):
        return True

    def simplify(self, ops, test):
        return ops

    # helpers -----------------------------------------------------------
    def choose_family(self, w, r, weights):
        fams = [f for f, wt in weights.items() if wt > 0]
        return r.choices(fams, weights=[weights[f] for f in fams])[0]


def swarm_weights(r, base, off_p=0.25, keep=()):
    """Swarm style: switch some families off per run, jitter the others."""
    out = {}
    for f, wt in base.items():
        if f not in keep and r.random() < off_p:
            out[f] = 0.0
        else:
            out[f] = wt * r.choice([0.5, 1.0, 1.0, 2.0])
    if not any(out.values()):
        out = dict(base)
    return out


INDEX_ATTRS = ("offset", "size", "address")

OWN_BASE = {
    "new": 5.0,
    "setparent": 4.0,
    "setop": 5.0,
    "setop_pure": 1.0,
    "listop": 3.0,
    "listop_pure": 0.7,
    "setattr": 1.5,
}


class OwnProfile(Profile):
    """Ownership histories over several IRs."""

    name = "own"
    base = OWN_BASE
    keep = ("new",)

    def config(self, r):
        c = super().config(r)
        c["steps"] = r.randrange(30, 100)
        c["weights"] = swarm_weights(r, self.base, keep=self.keep)
        c["p_explicit_uuid"] = r.choice([0.6, 0.85, 1.0])
        c["p_ctor_parent"] = r.choice([0.2, 0.5, 0.8])
        c["p_ctor_kids"] = r.choice([0.1, 0.25, 0.5])
        c["p_raising_iter"] = r.choice([0.0, 0.1, 0.25])
        c["p_addr_none"] = r.choice([0.1, 0.3])
        c["contents"] = True
        return c

    def gen(self, w):
        r = w.rs.ops
        fam = self.choose_family(w, r, w.cfg["weights"])
        # bootstrap: make sure there is something to work with
        if len(w.m.nodes) < 4:
            fam = "new"
        for _ in range(4):
            op = self.gen_family(w, r, fam)
            if op is not None and OPS[op["op"]].__class__ and self._ready(w, op):
                return op
        return None

    def _ready(self, w, op):
        from .ops import labels_exist

        d = OPS[op["op"]]
        return labels_exist(w, op, d) and d.ready(w, op)

    def gen_family(self, w, r, fam):
        if fam == "new":
            return gen_own.gen_new(w, r)
        if fam == "setparent":
            return gen_own.gen_setparent(w, r)
        if fam == "setop":
            return gen_own.gen_setop(w, r)
        if fam == "setop_pure":
            return gen_own.gen_setop(w, r, pure=True)
        if fam == "listop":
            return gen_own.gen_listop(w, r)
        if fam == "listop_pure":
            return gen_own.gen_listop(w, r, pure=True)
        if fam == "setattr":
            return gen_own.gen_setattr(w, r)
        if fam == "attr_index":
            return gen_own.gen_setattr(w, r, kinds=("bi", "cb", "db"), attrs=INDEX_ATTRS)
        if fam == "attr_sym":
            return gen_own.gen_setattr(w, r, kinds=("sym",))
        if fam == "se":
            from . import gen_index

            return gen_index.gen_se(w, r)
        if fam == "se_pure":
            from . import gen_index

            return gen_index.gen_se(w, r, pure=True)
        if fam == "cfg":
            from . import gen_misc

            return gen_misc.gen_cfg(w, r)
        if fam == "cfg_pure":
            from . import gen_misc

            return gen_misc.gen_cfg(w, r, pure=True)
        if fam == "bytes":
            from . import gen_misc

            return gen_misc.gen_bytes(w, r)
        return self.gen_more(w, r, fam)

    def gen_more(self, w, r, fam):
        return None


@profile
class C03(OwnProfile):
    prop = "C03"
    rule = (
        "one evaluation = one seeded ownership history (30-100 public mutations over up to 3 IRs, "
        "from both ends of the 6 containment relations); after every step every IR's get_by_uuid is "
        "probed with every UUID the world has ever seen. Non-trivial: the history moved a subtree of "
        ">=2 nodes between two parents or ran a parent-end bulk operation; distinct by op-kind sequence hash."
    )

    def after(self, w, op, out):
        inv_c03(w)
        if op["op"] in ("setparent", "setop", "listop", "new"):
            self._note_move(w, op)

    def _note_move(self, w, op):
        if op["op"] == "setop" and op["method"] in ("update", "ior", "ixor", "iand", "isub", "clear"):
            w.counters["probe:bulk"] += 1
        if op["op"] == "listop" and op["method"] in ("extend", "iadd", "setslice", "delslice", "clear", "reverse"):
            w.counters["probe:bulk"] += 1
        if op["op"] == "setparent" and op.get("parent"):
            if len(w.m.subtree(op["child"])) >= 2:
                w.counters["probe:subtree_move"] += 1

    def nontrivial(self, w):
        return w.counters["probe:bulk"] > 0 or w.counters["probe:subtree_move"] > 0


@profile
class C04(OwnProfile):
    prop = "C04"
    base = dict(OWN_BASE, se=1.0, cfg=0.5)
    rule = (
        "one evaluation = one seeded ownership history interleaved with attribute edits on bystanders; "
        "after every step the forest invariants are scanned from both ends and every labeled node is "
        "compared with the reference model (bystanders unchanged). Non-trivial: >=1 move of an owned "
        "node to another parent; distinct by op-kind sequence hash."
    )

    def after(self, w, op, out):
        before = w.counters["probe:moved_owned"]
        inv_c04(w)
        d = OPS[op["op"]]
        compare_model(w, d.touched(w, op), ("C04",))

    def nontrivial(self, w):
        return w.counters["fam:own_child"] + w.counters["fam:own_set"] + w.counters["fam:own_list"] >= 3


@profile
class C16(OwnProfile):
    prop = "C16"
    base = dict(OWN_BASE, setop=6.0, setop_pure=4.0, listop=5.0, listop_pure=2.0, setparent=1.5, se=4.0, se_pure=2.0)
    rule = (
        "one evaluation = one seeded history of collection calls (mutable set / sequence interface incl. mixins, "
        "failing calls, raising iterables) run side by side with built-in set/list on labels; compared: return "
        "value, exception class, resulting contents, ownership untouched by pure operators. Non-trivial: >=5 "
        "collection calls of >=3 different methods; distinct by op-kind sequence hash."
    )

    def config(self, r):
        c = super().config(r)
        c["p_raising_iter"] = r.choice([0.05, 0.15, 0.3])
        return c

    def after(self, w, op, out):
        d = OPS[op["op"]]
        if op["op"] in ("setop", "listop", "se"):
            w.counters["meth:" + op["op"] + "." + op["method"]] += 1
            compare_model(w, d.touched(w, op), ("C16",), owner_others=("C16",))
            if out is not None and out.kind == "exc":
                # a failed operation leaves the collection and its elements consistent
                try:
                    inv_c03_c04_as(w, "C16")
                finally:
                    pass
        else:
            compare_model(w, d.touched(w, op), (), owner_others=())

    def nontrivial(self, w):
        meths = [k for k in w.counters if k.startswith("meth:")]
        return len(meths) >= 3 and sum(w.counters[k] for k in meths) >= 5


def inv_c03_c04_as(w, prop):
    """Run the C03/C04 structural invariants but charge a failure to `prop`
    (used for 'a failed operation leaves the collection consistent')."""
    from .core import Diverged, Violation

    saved = w.prop
    w.prop = ("C03", "C04")
    try:
        inv_c03(w)
        inv_c04(w)
    except Violation as v:
        w.prop = saved
        raise Violation(prop, "after_failure:" + v.check, v.detail)
    finally:
        w.prop = saved


# ---------------------------------------------------------------------------
# index profiles: an edit task and a lookup task on one world

from . import gen_index  # noqa: E402

INDEX_BASE = {
    "new": 4.0,
    "setparent": 3.0,
    "setop": 3.0,
    "listop": 0.7,
    "attr_index": 6.0,
    "setattr": 0.5,
    "se": 2.0,
}
INDEX_ATTRS = ("offset", "size", "address")


class IndexProfile(OwnProfile):
    name = "index"
    base = INDEX_BASE
    lookup_props = ("C05", "C06", "C13")
    keep = ("new", "attr_index")

    def config(self, r):
        c = super().config(r)
        c["steps"] = r.randrange(30, 100)
        c["weights"] = swarm_weights(r, self.base, keep=self.keep)
        c["lookup_mode"] = r.choice(["sparse", "dense", "every", "bursts", "bursts"])
        c["burst_len"] = r.choice([2, 3, 6])
        c["p_lookup"] = {"sparse": 0.1, "dense": 0.5, "every": 0.5, "bursts": 0.08}[c["lookup_mode"]]
        c["kind_weights"] = {"ir": 0.4, "mod": 0.6, "sec": 1.0, "bi": 2.0, "cb": 2.5, "db": 2.0, "px": 0.2, "sym": 0.6}
        c["p_addr_none"] = r.choice([0.1, 0.25])
        c["p_boundary"] = r.choice([0.0, 0.1, 0.2])
        c["addr_hi"] = r.choice([12, 40])
        c["size_hi"] = r.choice([6, 12])
        c["off_hi"] = r.choice([8, 14])
        c["allow_shrink"] = True
        return c

    def begin(self, w):
        w.burst_left = 0
        w.phase = 0  # 0: no lookup yet, 1: lookup seen, 2: edit after lookup, 3: lookup after that

    def gen(self, w):
        r = w.rs.ops
        rl = w.rs.lookups
        if len(w.m.nodes) >= 4:
            do = False
            if w.burst_left > 0:
                w.burst_left -= 1
                do = True
            elif rl.random() < w.cfg["p_lookup"]:
                do = True
                if w.cfg["lookup_mode"] == "bursts":
                    w.burst_left = w.cfg["burst_len"] - 1
            if do:
                for _ in range(4):
                    op = gen_index.gen_lookup(w, rl, props=self.lookup_props)
                    if op is not None and self._ready(w, op):
                        return op
        return super().gen(w)

    def gen_family(self, w, r, fam):
        return super().gen_family(w, r, fam)

    def after(self, w, op, out):
        if op["op"] == "lookup":
            if out is not None:
                if w.phase == 0:
                    w.phase = 1
                elif w.phase == 2:
                    w.phase = 3
        elif out is not None and w.phase == 1 and op["op"] in ("setattr", "setparent", "setop", "new", "se", "listop"):
            w.phase = 2

    def nontrivial(self, w):
        return w.phase == 3

    def extra_coverage(self, results, tot):
        return {
            "lookups_judged": {k[7:]: v for k, v in tot.items() if k.startswith("lookup:")},
            "lazy_tree_branches": {k[7:]: v for k, v in tot.items() if k.startswith("branch:")},
        }


@profile
class C05(IndexProfile):
    prop = "C05"
    lookup_props = ("C05",)
    rule = (
        "one evaluation = one run of two cooperating tasks on one world: an edit task (block offset/size, interval "
        "address/size, add/remove/move of blocks, intervals, sections, modules) and a lookup task woken between edits "
        "by the scheduler (sparse / dense / every step / bursts). Every block lookup at every scope is compared with "
        "a must/may fresh scan of the live structure. Non-trivial: a lookup was issued after an index-affecting edit "
        "that followed an earlier lookup; distinct by op-kind sequence hash."
    )


@profile
class C06(IndexProfile):
    prop = "C06"
    lookup_props = ("C06",)
    base = dict(INDEX_BASE, attr_index=7.0, se=0.3)
    rule = (
        "as C05 with byte_intervals_on/at, sections_on/at and Section.address/size as the lookup task; the edit task "
        "favours interval address (to/from None) and size edits, moves, removal and re-adding. Oracle: scan of the live "
        "structure and the statement's extent formula. Non-trivial/distinct as C05."
    )

    def config(self, r):
        c = super().config(r)
        c["kind_weights"] = {"ir": 0.4, "mod": 0.8, "sec": 1.5, "bi": 3.0, "cb": 0.6, "db": 0.4, "px": 0.1, "sym": 0.2}
        c["p_addr_none"] = r.choice([0.15, 0.3])
        return c


@profile
class C13(IndexProfile):
    prop = "C13"
    lookup_props = ("C13",)
    base = dict(INDEX_BASE, se=7.0, attr_index=3.0)
    keep = ("new", "se")
    rule = (
        "as C05 with symbolic_expressions_at[_offset] as the lookup task and every mutable-mapping operation on "
        "symbolic_expressions (item set/delete, pop, popitem, setdefault, update, clear, whole-mapping assignment) plus "
        "interval address changes and moves as the edit task. Interval scope exact and ordered by offset, outer scopes "
        "must/may. Non-trivial/distinct as C05."
    )

    def config(self, r):
        c = super().config(r)
        c["kind_weights"] = {"ir": 0.4, "mod": 0.6, "sec": 1.0, "bi": 2.5, "cb": 0.3, "db": 0.3, "px": 0.1, "sym": 2.0}
        return c


# ---------------------------------------------------------------------------
# sym / cfg / bytes profiles

from .ops_misc import inv_c10, inv_c11, inv_c19  # noqa: E402


@profile
class C10(OwnProfile):
    prop = "C10"
    name = "sym"
    base = {"new": 4.0, "setparent": 4.0, "setop": 3.0, "attr_sym": 7.0, "listop": 0.7, "setattr": 0.5}
    keep = ("new", "attr_sym")
    rule = (
        "one evaluation = one seeded history of symbol add/remove/move, renames (incl. to '' and to shared names), payload "
        "switches block/proxy/int(0)/None and block/proxy/section/module moves; after every step symbols_named is compared "
        "for every module x every name in use (plus unused ones) and references for every block and proxy, against scans of "
        "the live structure. Non-trivial: >=1 rename and >=1 payload switch and >=1 move of a symbol or referent; distinct by op-kind sequence hash."
    )

    def config(self, r):
        c = super().config(r)
        c["steps"] = r.randrange(40, 80)
        c["kind_weights"] = {"ir": 0.3, "mod": 1.2, "sec": 0.7, "bi": 0.7, "cb": 1.0, "db": 0.8, "px": 1.0, "sym": 3.0}
        return c

    def after(self, w, op, out):
        inv_c10(w)
        if op["op"] == "setattr" and w.m.nodes.get(op["label"]) is not None and w.m.nodes[op["label"]].kind == "sym":
            if op["attr"] == "name":
                w.counters["probe:rename"] += 1
            if op["attr"] in ("referent", "value"):
                w.counters["probe:payload_switch"] += 1
        if op["op"] in ("setparent", "setop"):
            w.counters["probe:moves"] += 1

    def nontrivial(self, w):
        return w.counters["probe:rename"] > 0 and w.counters["probe:payload_switch"] > 0 and w.counters["probe:moves"] > 0


@profile
class C11(OwnProfile):
    prop = "C11"
    name = "cfg"
    base = {"new": 2.5, "setparent": 1.5, "cfg": 8.0, "cfg_pure": 2.0, "setop": 0.7, "listop": 0.4}
    keep = ("new", "cfg")
    rule = (
        "one evaluation = one seeded history of set operations on ir.cfg (add/discard/remove/pop/clear/update and in-place "
        "operators, over attached and free nodes, self-loops, parallel edges differing in label, None vs all-false label) run "
        "side by side with a Python set of (source,target,label); after every step membership, length, iteration multiset, "
        "out_edges/in_edges for every node and block incoming/outgoing_edges equal the reference. Non-trivial: >=5 CFG "
        "mutations of >=3 kinds; distinct by op-kind sequence hash."
    )

    def config(self, r):
        c = super().config(r)
        c["steps"] = r.randrange(40, 80)
        c["kind_weights"] = {"ir": 0.8, "mod": 1.0, "sec": 0.8, "bi": 0.8, "cb": 3.0, "db": 0.2, "px": 2.0, "sym": 0.1}
        return c

    def after(self, w, op, out):
        if op["op"] == "cfg":
            w.counters["meth:cfg." + op["method"]] += 1
        inv_c11(w)

    def nontrivial(self, w):
        ms = [k for k in w.counters if k.startswith("meth:cfg.") and k[9:] in CfgMUT]
        return len(ms) >= 3 and sum(w.counters[k] for k in ms) >= 5


CfgMUT = ("add", "discard", "remove", "pop", "clear", "update", "ior", "isub", "iand", "ixor")


@profile
class C19(OwnProfile):
    prop = "C19"
    name = "bytes"
    base = {"new": 3.0, "bytes": 7.0, "attr_index": 6.0, "setparent": 1.5, "setop": 0.7, "persist": 1.0}
    keep = ("new", "bytes", "attr_index")
    rule = (
        "one evaluation = one seeded history of size / initialized_size assignments (initialized_size never above size), "
        "whole and in-place contents edits within size, block offset/size edits (blocks partly or wholly beyond the stored "
        "bytes), interval address edits, interleaved with save/restart; after every step: initialized_size == len(contents) "
        "<= size, byte-array model equality, block address / contents / contains_offset / contains_address at probe points "
        "around both ends; constructor rejects more bytes than size; every state saves and loads back. Non-trivial: >=1 "
        "size shrink below the stored byte count or >=1 initialized_size change, and >=1 block partly beyond the stored bytes; "
        "distinct by op-kind sequence hash."
    )

    def config(self, r):
        c = super().config(r)
        c["steps"] = r.randrange(30, 60)
        c["kind_weights"] = {"ir": 0.3, "mod": 0.4, "sec": 0.7, "bi": 3.0, "cb": 1.5, "db": 1.5, "px": 0.0, "sym": 0.1}
        c["allow_shrink"] = True
        c["size_hi"] = r.choice([6, 12, 20])
        c["off_hi"] = r.choice([6, 14])
        c["p_bad_ctor"] = r.choice([0.0, 0.05, 0.1])
        return c

    def gen_family(self, w, r, fam):
        if fam == "new" and r.random() < w.cfg.get("p_bad_ctor", 0):
            # construction with more stored bytes than the size: must be rejected
            n = r.randrange(1, 6)
            return {"op": "new", "kind": "bi", "label": w.fresh("bi"), "uuid": r.getrandbits(128),
                    "attrs": {"contents": bytes(r.randrange(256) for _ in range(n)).hex(), "size": r.randrange(0, n)}}
        if fam == "new" and r.random() < 0.2:
            n = r.randrange(0, 5)
            size = n + r.randrange(0, 5)
            return {"op": "new", "kind": "bi", "label": w.fresh("bi"), "uuid": r.getrandbits(128),
                    "attrs": {"contents": bytes(r.randrange(256) for _ in range(n)).hex(), "size": size, "initialized_size": r.randrange(0, size + 1)}}
        return super().gen_family(w, r, fam)

    def after(self, w, op, out):
        inv_c19(w)
        if op["op"] == "setattr" and op["attr"] == "size":
            n = w.m.nodes.get(op["label"])
            if n is not None and n.kind == "bi":
                w.counters["probe:bi_size_set"] += 1
        if op["op"] == "bytes" and op["method"] == "init_size":
            w.counters["probe:init_size_set"] += 1
        for kl in w.m.by_kind("cb", "db"):
            k = w.m.nodes[kl]
            if k.parent and k.a["offset"] + k.a["size"] > len(w.m.nodes[k.parent].a["contents"]) and k.a["size"] > 0:
                w.counters["probe:block_beyond_bytes"] += 1
                break

    def nontrivial(self, w):
        return (w.counters["probe:bi_size_set"] + w.counters["probe:init_size_set"]) > 0 and w.counters["probe:block_beyond_bytes"] > 0
