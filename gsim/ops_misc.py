"""CFG set operations (C11), byte-storage operations (C19) and the symbol /
CFG / byte-view invariants (C10, C11, C19)."""
import operator

from .observe import edge_view, label_view
from .ops import Exp, Op, Out, capture, register

# ---------------------------------------------------------------------------
# CFG

import collections.abc as _cabc


class OSet(_cabc.Set):
    """Insertion-ordered immutable set: edge tuples hash by object address, so
    a built-in set of them would iterate in an unrepeatable order and decide
    the insertion order of the graph (and with it what pop() returns)."""

    def __init__(self, it=()):
        self._d = dict.fromkeys(it)

    def __contains__(self, x):
        return x in self._d

    def __iter__(self):
        return iter(self._d)

    def __len__(self):
        return len(self._d)


def mk_edge(w, e):
    g = w.g
    lab = None
    if e[2] is not None:
        lab = g.Edge.Label(g.Edge.Type[e[2][0]], e[2][1], e[2][2])
    return g.Edge(w.objs[e[0]], w.objs[e[1]], lab)


def norm_edge(e):
    return (e[0], e[1], tuple(e[2][:3]) if e[2] is not None else None)


def canon_edges(w, es):
    return sorted((list(edge_view(w, e)) for e in es), key=repr)


def canon_model_edges(es):
    return sorted(([s, t, l] for s, t, l in es), key=repr)


def _fix(v):
    """tuples -> lists for comparison with JSON-ish canonical values"""
    if isinstance(v, tuple):
        return [_fix(x) for x in v]
    if isinstance(v, list):
        return [_fix(x) for x in v]
    return v


@register
class CfgOp(Op):
    """{"op":"cfg","ir":I,"method":M,"args":[...]}; edges are [src,tgt,label]"""

    name = "cfg"
    family = "cfg"
    MUT = ("add", "discard", "remove", "pop", "clear", "update", "ior", "isub", "iand", "ixor")  # + "add_none" (generated apart)
    PURE = ("contains", "len", "iter", "out_edges", "in_edges", "or", "and", "sub", "xor", "eq", "le", "isdisjoint")

    def _edges(self, op):
        m, a = op["method"], op.get("args", [])
        if op.get("cfg_arg"):
            return []
        if m in ("add", "discard", "remove", "contains"):
            return [a[0]]
        if m in ("update", "ior", "isub", "iand", "ixor", "or", "and", "sub", "xor", "eq", "le", "isdisjoint"):
            return list(a[0])
        return []

    def labels(self, op):
        out = [(op["ir"], ("ir",))]
        for e in self._edges(op):
            out += [(e[0], ("cb", "px")), (e[1], ("cb", "px"))]
        if op["method"] in ("out_edges", "in_edges", "add_none"):
            out.append((op["args"][0], ("cb", "px")))
        if op.get("cfg_arg"):
            out.append((op["cfg_arg"], ("ir",)))
        return out

    def touched(self, w, op):
        return [op["ir"]]

    def run(self, w, op):
        C = w.objs[op["ir"]].cfg
        m, a = op["method"], op.get("args", [])
        if m == "add":
            e = mk_edge(w, a[0])
            fn = lambda: C.add(e)
        elif m == "add_none":
            # an edge with a missing endpoint (Edge(block, symbol.referent) for a symbol without
            # referent): no statement covers it; whatever happens, the set stays consistent
            n0 = w.objs[a[0]]
            e = w.g.Edge(n0, None) if a[1] == "target" else w.g.Edge(None, n0)
            fn = lambda: C.add(e)
        elif m == "discard":
            e = mk_edge(w, a[0])
            fn = lambda: C.discard(e)
        elif m == "remove":
            e = mk_edge(w, a[0])
            fn = lambda: C.remove(e)
        elif m == "pop":
            fn = lambda: C.pop()
        elif m == "clear":
            fn = lambda: C.clear()
        elif m == "update":
            style = op.get("style", "list")
            if op.get("cfg_arg"):
                # another CFG object (possibly this very one) as the argument, or a lazy walk over it
                oc = w.objs[op["cfg_arg"]].cfg
                arg = iter(oc) if style == "iter" else ((e for e in oc) if style == "set" else oc)
            else:
                es = [mk_edge(w, e) for e in a[0]]
                arg = iter(es) if style == "iter" else (OSet(es) if style == "set" else es)
                if op.get("raise_after") is not None:
                    from .ops_own import RaisingIter

                    arg = RaisingIter(es, op["raise_after"])  # the iterable fails after k edges
            fn = lambda: C.update(arg)
        elif m in ("ior", "isub", "iand", "ixor"):
            es = w.objs[op["cfg_arg"]].cfg if op.get("cfg_arg") else OSet(mk_edge(w, e) for e in a[0])
            if op.get("style") == "iter" and not op.get("cfg_arg"):
                es = iter(list(es))  # a one-shot iterator (the built-in set refuses it; the ABC mixins take it)
            name = "__%s__" % m
            fn = lambda: getattr(C, name)(es)
        elif m in ("or", "and", "sub", "xor", "eq", "le"):
            es = w.objs[op["cfg_arg"]].cfg if op.get("cfg_arg") else OSet(mk_edge(w, e) for e in a[0])
            f2 = {"or": operator.or_, "and": operator.and_, "sub": operator.sub, "xor": operator.xor, "eq": operator.eq, "le": operator.le}[m]
            fn = (lambda: f2(es, C)) if op.get("reflected") else (lambda: f2(C, es))
        elif m == "isdisjoint":
            es = w.objs[op["cfg_arg"]].cfg if op.get("cfg_arg") else OSet(mk_edge(w, e) for e in a[0])
            fn = lambda: C.isdisjoint(es)
        elif m == "contains":
            e = mk_edge(w, a[0])
            fn = lambda: e in C
        elif m == "len":
            fn = lambda: len(C)
        elif m == "iter":
            fn = lambda: list(C)
        elif m == "out_edges":
            n = w.objs[a[0]]
            fn = lambda: list(C.out_edges(n))
        elif m == "in_edges":
            n = w.objs[a[0]]
            fn = lambda: list(C.in_edges(n))
        else:
            raise KeyError(m)
        out = capture(fn)
        if out.kind == "ok":
            r = out.raw
            with w.seams.observing():
                if m in ("ior", "isub", "iand", "ixor"):
                    out.value = "self" if r is C else "other"
                elif m == "pop":
                    out.value = list(edge_view(w, r))
                elif m in ("iter", "out_edges", "in_edges", "or", "and", "sub", "xor"):
                    out.value = _fix(canon_edges(w, r))
                    if m in ("or", "and", "sub", "xor") and isinstance(r, set):
                        r.clear()  # the returned set is the caller's
                        w.counters["probe:returned_value_scribbled"] += 1
                else:
                    out.value = r
        return out

    def model(self, w, op, out):
        n = w.m.nodes[op["ir"]]
        S = n.a["cfg"]
        m, a = op["method"], op.get("args", [])
        owner = ("C11",)
        exp = None
        if op.get("cfg_arg"):
            # the argument is a CFG object: its edge set as it was BEFORE the operation (it may be
            # this very CFG: s |= s, s -= s, s ^= s, s.update(s), s == s ...)
            a = [[[e[0], e[1], list(e[2]) if e[2] is not None else None] for e in sorted(w.m.nodes[op["cfg_arg"]].a["cfg"], key=repr)]]
            w.counters["probe:cfg_object_as_argument" + ("_self" if op["cfg_arg"] == op["ir"] else "")] += 1
        if m == "add_none":
            from .core import EndOfDomain

            w.counters["probe:cfg_add_with_missing_endpoint_" + ("accepted" if out.kind == "ok" else "refused")] += 1
            if out.kind == "ok":
                raise EndOfDomain()  # accepted: outside every statement from here on
            return Exp("any")  # refused: nothing changed - inv_c11 decides
        if m in ("ior", "isub", "iand", "ixor") and op.get("style") == "iter" and not op.get("cfg_arg") and out.kind == "exc" and isinstance(out.exc, TypeError):
            return Exp("any")  # like the built-in: operators take sets only; nothing changed
        if m == "update" and op.get("raise_after") is not None and not op.get("cfg_arg"):
            from .core import SimFault

            # a failed update: like set.update, any prefix of the edges the iterable produced may
            # have been inserted - but nothing that was in the set before may be gone
            w.counters["fault:iterable_fails_midway"] += 1
            if out.kind != "exc" or not isinstance(out.exc, SimFault):
                return Exp("exc", exc_cls=SimFault, owner=owner)
            got = set()
            for e in w.objs[op["ir"]].cfg:
                v = edge_view(w, e)
                got.add((v[0], v[1], tuple(v[2]) if v[2] is not None else None))
            prefix = [norm_edge(e) for e in a[0][: op["raise_after"]]]
            ok = False
            cur = set(S)
            for j in range(len(prefix) + 1):
                if j:
                    cur.add(prefix[j - 1])
                if cur == got:
                    ok = True
                    break
            if not ok:
                w.violate(owner, "c11:after_failed_update", "%s.cfg after update() whose iterable failed behind %d edges: %r; before the call: %r" % (op["ir"], op["raise_after"], sorted(got, key=repr), sorted(S, key=repr)))
            S.clear()
            S.update(got)
            return Exp("exc", exc_cls=SimFault, owner=owner)
        try:
            if m == "add":
                S.add(norm_edge(a[0]))
                val = None
            elif m == "discard":
                S.discard(norm_edge(a[0]))
                val = None
            elif m == "remove":
                S.remove(norm_edge(a[0]))
                val = None
            elif m == "pop":
                if not S:
                    raise KeyError()
                val = None
                if out.kind == "ok":
                    e = (out.value[0], out.value[1], tuple(out.value[2]) if out.value[2] is not None else None)
                    if e in S:
                        S.discard(e)
                        val = out.value
                    else:
                        exp = Exp("ok", owner=owner, alts=_fix(canon_model_edges(S)))
            elif m == "clear":
                S.clear()
                val = None
            elif m == "update":
                S.update(norm_edge(e) for e in a[0])
                val = None
            elif m == "ior":
                S |= {norm_edge(e) for e in a[0]}
                val = "self"
            elif m == "isub":
                S -= {norm_edge(e) for e in a[0]}
                val = "self"
            elif m == "iand":
                S &= {norm_edge(e) for e in a[0]}
                val = "self"
            elif m == "ixor":
                S ^= {norm_edge(e) for e in a[0]}
                val = "self"
            elif m in ("or", "and", "sub", "xor"):
                o = {norm_edge(e) for e in a[0]}
                f2 = {"or": operator.or_, "and": operator.and_, "sub": operator.sub, "xor": operator.xor}[m]
                r = f2(o, S) if op.get("reflected") else f2(S, o)
                val = _fix(canon_model_edges(r))
            elif m in ("eq", "le"):
                o = {norm_edge(e) for e in a[0]}
                f2 = {"eq": operator.eq, "le": operator.le}[m]
                val = f2(o, S) if op.get("reflected") else f2(S, o)
            elif m == "isdisjoint":
                val = S.isdisjoint({norm_edge(e) for e in a[0]})
            elif m == "contains":
                val = norm_edge(a[0]) in S
            elif m == "len":
                val = len(S)
            elif m == "iter":
                val = _fix(canon_model_edges(S))
            elif m == "out_edges":
                val = _fix(canon_model_edges(e for e in S if e[0] == a[0]))
            elif m == "in_edges":
                val = _fix(canon_model_edges(e for e in S if e[1] == a[0]))
            if exp is None:
                exp = Exp("ok", value=val, owner=owner)
        except KeyError:
            exp = Exp("exc", exc_cls=KeyError, owner=owner)
        return exp


def inv_c11(w):
    """Membership, length, iteration multiset and adjacency views of every
    IR's CFG equal the reference set."""
    for il in w.m.by_kind("ir"):
        I = w.objs.get(il)
        if I is None:
            continue
        S = w.m.nodes[il].a["cfg"]
        C = I.cfg
        want = _fix(canon_model_edges(S))
        got = _fix(canon_edges(w, C))
        if got != want:
            w.violate(("C11",), "c11:iteration", "%s.cfg iterates %r, reference set %r" % (il, got, want))
        if len(C) != len(S):
            w.violate(("C11",), "c11:len", "%s: len(cfg) = %d, reference %d" % (il, len(C), len(S)))
        for e in S:
            if mk_edge(w, e) not in C:
                w.violate(("C11",), "c11:contains", "%s: %r in reference set but 'in' is False" % (il, e))
        nodes = w.m.by_kind("cb", "px")
        for nl in nodes:
            n = w.objs[nl]
            for meth, pos in (("out_edges", 0), ("in_edges", 1)):
                got = _fix(canon_edges(w, getattr(C, meth)(n)))
                want = _fix(canon_model_edges(e for e in S if e[pos] == nl))
                if got != want:
                    w.violate(("C11",), "c11:" + meth, "%s.cfg.%s(%s) = %r, reference %r" % (il, meth, nl, got, want))
            # near-miss probes: same endpoints, different label
            for e in list(S)[:3]:
                for lab in (None, ("Branch", False, False), ("Call", True, False)):
                    p = (e[0], e[1], lab)
                    if (p in S) != (mk_edge(w, p) in C):
                        w.violate(("C11",), "c11:contains_label", "%s: membership of %r: impl %r, reference %r" % (il, p, not (p in S), p in S))
    # block views (I3: only for blocks attached to an IR, against that IR's CFG)
    for nl in w.m.by_kind("cb", "px"):
        il = w.m.ir_of(nl)
        n = w.objs[nl]
        for attr, pos in (("outgoing_edges", 0), ("incoming_edges", 1)):
            got = _fix(canon_edges(w, getattr(n, attr)))
            if il is None:
                want = []
            else:
                want = _fix(canon_model_edges(e for e in w.m.nodes[il].a["cfg"] if e[pos] == nl))
            if got != want:
                w.violate(("C11",), "c11:" + attr, "%s.%s = %r, reference %r (ir %s)" % (nl, attr, got, want, il))


# ---------------------------------------------------------------------------
# symbols (C10)


def inv_c10(w):
    names = set(["", "zz-unused"])
    for l in w.m.by_kind("sym"):
        names.add(w.objs[l].name)
    for ml in w.m.by_kind("mod"):
        M = w.objs[ml]
        syms = list(M.symbols)
        for name in sorted(names):
            got = sorted(w.L(s) for s in M.symbols_named(name))
            want = sorted(w.L(s) for s in syms if s.name == name)
            if got != want:
                w.violate(("C10",), "c10:symbols_named", "%s.symbols_named(%r) = %r, scan of symbols gives %r" % (ml, name, got, want))
    for bl in w.m.by_kind("cb", "db", "px"):
        B = w.objs[bl]
        M = B.module
        got = sorted(w.L(s) for s in B.references)
        want = sorted(w.L(s) for s in M.symbols if s.referent is B) if M is not None else []
        if got != want:
            w.violate(("C10",), "c10:references", "%s.references = %r, scan of %s.symbols gives %r" % (bl, got, w.L(M), want))
    w.counters["c10:checked"] += 1


# ---------------------------------------------------------------------------
# bytes (C19)


@register
class BytesOp(Op):
    """{"op":"bytes","bi":B,"method":M,"args":[...]}
    methods: init_size(n) | assign(hex) | edit(start, hex) | edit_slice(a,b,hex)"""

    name = "bytes"
    family = "bytes"

    def labels(self, op):
        return [(op["bi"], ("bi",))]

    def touched(self, w, op):
        return [op["bi"]]

    def ready(self, w, op):
        n = w.m.nodes[op["bi"]]
        m, a = op["method"], op["args"]
        if m == "poke_shared":
            return a[0] in w.shared_bytes
        over = 4 if w.cfg.get("allow_overlong") else 0
        if m == "init_size":
            return 0 <= a[0] <= n.a["size"] + over
        if m == "assign":
            return len(a[0]) // 2 <= n.a["size"] + over
        if m in ("edit", "edit_slice") and op["bi"] in w.immutable_contents:
            return False  # the caller stored an immutable bytes object
        if m == "edit":
            return a[0] + len(a[1]) // 2 <= len(n.a["contents"])
        if m == "edit_slice":
            c = bytearray(n.a["contents"])
            c[a[0] : a[1]] = bytes.fromhex(a[2])
            return len(c) <= n.a["size"]
        return False

    def run(self, w, op):
        B = w.objs[op["bi"]]
        m, a = op["method"], op["args"]
        if m == "init_size":

            def fn():
                B.initialized_size = a[0]

        elif m == "assign":
            v = bytes.fromhex(a[0])
            if op.get("as", "bytearray") == "bytearray":
                v = bytearray(v)

            def fn():
                B.contents = v

        elif m == "edit":
            v = bytes.fromhex(a[1])

            def fn():
                B.contents[a[0] : a[0] + len(v)] = v

        elif m == "edit_slice":
            v = bytes.fromhex(a[2])

            def fn():
                B.contents[a[0] : a[1]] = v

        elif m == "poke_shared":
            buf = w.shared_bytes[a[0]]

            def fn():
                # the caller edits ITS bytearray: no interval may notice
                buf.extend(b"\xAA\xBB")
                if len(buf) > 2:
                    buf[0] ^= 0xFF

        out = capture(fn)
        out.value = None
        return out

    def model(self, w, op, out):
        n = w.m.nodes[op["bi"]]
        c = n.a["contents"]
        m, a = op["method"], op["args"]
        if m == "init_size":
            if a[0] > len(c):
                c.extend(b"\0" * (a[0] - len(c)))
            else:
                del c[a[0] :]
        elif m == "assign":
            n.a["contents"] = bytearray(bytes.fromhex(a[0]))
            if op.get("as", "bytearray") == "bytes":
                w.immutable_contents.add(op["bi"])
            else:
                w.immutable_contents.discard(op["bi"])
        elif m == "edit":
            v = bytes.fromhex(a[1])
            c[a[0] : a[0] + len(v)] = v
        elif m == "edit_slice":
            c[a[0] : a[1]] = bytes.fromhex(a[2])
        elif m == "poke_shared":
            w.counters["probe:caller_bytearray_edited"] += 1
        return Exp("ok", value=None, owner=("C19",))


def inv_c19(w):
    for bl in w.m.by_kind("bi"):
        B = w.objs[bl]
        n = w.m.nodes[bl]
        if B.initialized_size != len(B.contents):
            w.violate(("C19",), "c19:init_size", "%s.initialized_size = %d but %d bytes stored" % (bl, B.initialized_size, len(B.contents)))
        if len(B.contents) > B.size:
            w.violate(("C19",), "c19:overlong", "%s stores %d bytes but size is %d" % (bl, len(B.contents), B.size))
        if bytes(B.contents) != bytes(n.a["contents"]) or B.size != n.a["size"]:
            w.violate(("C19",), "c19:model", "%s: contents/size %r/%d, byte-array model %r/%d" % (bl, bytes(B.contents), B.size, bytes(n.a["contents"]), n.a["size"]))
    # ... and whatever else a section lists (an interval whose construction was REJECTED must not
    # have stayed behind in the section it was asked to join)
    for sl in w.m.by_kind("sec"):
        S = w.objs.get(sl)
        if S is None:
            continue
        for B in S.byte_intervals:
            if len(B.contents) > B.size:
                w.violate(("C19",), "c19:overlong", "%s lists an interval (%s) that stores %d bytes but has size %d" % (sl, w.L(B), len(B.contents), B.size))
    for kl in w.m.by_kind("cb", "db"):
        K = w.objs[kl]
        I = K.byte_interval
        if I is None:
            if K.address is not None or bytes(K.contents) != b"":
                w.violate(("C19",), "c19:detached_view", "%s has no interval but address %r contents %r" % (kl, K.address, bytes(K.contents)))
            continue
        o, s = K.offset, K.size
        A = I.address
        want_addr = None if A is None else A + o
        if K.address != want_addr:
            w.violate(("C19",), "c19:address", "%s.address = %r, interval address %r + offset %d" % (kl, K.address, A, o))
        want = bytes(I.contents)[o : o + s]
        if bytes(K.contents) != want:
            w.violate(("C19",), "c19:contents", "%s.contents = %r, interval bytes [%d:%d] = %r" % (kl, bytes(K.contents), o, o + s, want))
        for p in (o - 1, o, o + 1, o + s - 1, o + s, o + s + 1):
            want_in = o <= p < o + s
            if bool(K.contains_offset(p)) != want_in:
                w.violate(("C19",), "c19:contains_offset", "%s.contains_offset(%d) = %r, range [%d,%d)" % (kl, p, K.contains_offset(p), o, o + s))
            base = A if A is not None else 0
            got = bool(K.contains_address(base + p))
            want_a = want_in and A is not None
            if got != want_a:
                w.violate(("C19",), "c19:contains_address", "%s.contains_address(%d) = %r, expected %r" % (kl, base + p, got, want_a))
