"""Lookup operations (the lookup task) and their fresh-scan oracles (C05, C06,
C13). The oracle scans the LIVE structure through public collections and
attributes at that moment - never the model - and computes a must set and a
may set per query (DESIGN.md I1/I2).
"""
from .ops import Exp, Op, Out, capture, register
from .observe import se_view

BLOCK_METHODS = [
    "byte_blocks_on",
    "byte_blocks_at",
    "code_blocks_on",
    "code_blocks_at",
    "data_blocks_on",
    "data_blocks_at",
]
OFFSET_METHODS = [m + "_offset" for m in BLOCK_METHODS]
METHODS = {
    "bi": BLOCK_METHODS + OFFSET_METHODS + ["symbolic_expressions_at", "symbolic_expressions_at_offset"],
    "sec": BLOCK_METHODS + ["byte_intervals_on", "byte_intervals_at", "symbolic_expressions_at", "address", "size"],
    "mod": BLOCK_METHODS + ["byte_intervals_on", "byte_intervals_at", "sections_on", "sections_at", "symbolic_expressions_at"],
    "ir": BLOCK_METHODS + ["byte_intervals_on", "byte_intervals_at", "sections_on", "sections_at", "symbolic_expressions_at"],
}
PROP_OF = {}
for _m in BLOCK_METHODS + OFFSET_METHODS:
    PROP_OF[_m] = "C05"
for _m in ("byte_intervals_on", "byte_intervals_at", "sections_on", "sections_at", "address", "size"):
    PROP_OF[_m] = "C06"
for _m in ("symbolic_expressions_at", "symbolic_expressions_at_offset"):
    PROP_OF[_m] = "C13"


def mk_query(q):
    if isinstance(q, int):
        return q
    return range(q[0], q[1], q[2])


def q_range(q):
    if isinstance(q, int):
        return range(q, q + 1)
    return range(q[0], q[1], q[2])


def has_member_in(r, lo, hi):
    """Does the positive-step range r have a member in [lo, hi)?"""
    if hi <= lo or len_zero(r):
        return False
    # first member >= lo
    if lo <= r.start:
        first = r.start
    else:
        k = -(-(lo - r.start) // r.step)
        first = r.start + k * r.step
    return first < hi and first < r.stop


def len_zero(r):
    return r.start >= r.stop


def span_intersects(r, lo, hi):
    if len_zero(r) or hi <= lo:
        return False
    return max(r.start, lo) < min(r.stop, hi)


# ---------------------------------------------------------------------------
# scans of the live structure


def intervals_of(w, scope, kind):
    """[(interval object)] contained in scope, by walking the collections."""
    if kind == "bi":
        return [scope]
    if kind == "sec":
        return list(scope.byte_intervals)
    if kind == "mod":
        return [bi for s in scope.sections for bi in s.byte_intervals]
    return [bi for m in scope.modules for s in m.sections for bi in s.byte_intervals]


def sections_of(w, scope, kind):
    if kind == "mod":
        return list(scope.sections)
    return [s for m in scope.modules for s in m.sections]


def section_extent(sec):
    """The statement's formula over section.byte_intervals."""
    bis = list(sec.byte_intervals)
    if not bis or any(bi.address is None for bi in bis):
        return None, None
    lo = min(bi.address for bi in bis)
    hi = max(bi.address + bi.size for bi in bis)
    return lo, hi - lo


def scan(w, scope, kind, method, q):
    """Returns (must, may) as lists of objects (for expression lookups: lists
    of (interval, offset, expr)), or ('exact', value) for properties."""
    g = w.g
    r = q_range(q) if q is not None else None
    if method in ("address", "size"):
        a, s = section_extent(scope)
        return "exact", (a if method == "address" else s)
    outer = kind != "bi"
    if method in PROP_OF and PROP_OF[method] == "C05":
        by_offset = method.endswith("_offset")
        base = method[: -len("_offset")] if by_offset else method
        want = {"byte": g.ByteBlock, "code": g.CodeBlock, "data": g.DataBlock}[base.split("_")[0]]
        on = base.endswith("_on")
        must, may = [], []
        for bi in intervals_of(w, scope, kind):
            A = 0 if by_offset else bi.address
            if A is None:
                continue
            for b in bi.blocks:
                if not isinstance(b, want):
                    continue
                lo, hi = A + b.offset, A + b.offset + b.size
                if on:
                    if b.size == 0:
                        continue
                    if span_intersects(r, lo, hi):
                        may.append(b)
                    if outer:
                        clo, chi = max(lo, A), min(hi, A + bi.size)
                        if has_member_in(r, clo, chi):
                            must.append(b)
                    elif has_member_in(r, lo, hi):
                        must.append(b)
                else:
                    if lo in r:
                        may.append(b)
                        if not outer or (0 <= b.offset < bi.size):
                            must.append(b)
        return must, may
    if method in ("byte_intervals_on", "byte_intervals_at"):
        must, may = [], []
        for bi in intervals_of(w, scope, kind):
            A = bi.address
            if A is None:
                continue
            if method.endswith("_on"):
                if bi.size == 0:
                    continue
                if span_intersects(r, A, A + bi.size):
                    may.append(bi)
                if has_member_in(r, A, A + bi.size):
                    must.append(bi)
            elif A in r:
                must.append(bi)
                may.append(bi)
        return must, may
    if method in ("sections_on", "sections_at"):
        must, may = [], []
        for s in sections_of(w, scope, kind):
            A, size = section_extent(s)
            if A is None:
                continue
            if method.endswith("_on"):
                if size == 0:
                    continue
                if span_intersects(r, A, A + size):
                    may.append(s)
                if has_member_in(r, A, A + size):
                    must.append(s)
            elif A in r:
                must.append(s)
                may.append(s)
        return must, may
    if method in ("symbolic_expressions_at", "symbolic_expressions_at_offset"):
        by_offset = method.endswith("_offset")
        must, may = [], []
        for bi in intervals_of(w, scope, kind):
            A = 0 if by_offset else bi.address
            if A is None:
                continue
            for off in sorted(bi.symbolic_expressions.keys()):
                if A + off in r:
                    t = (bi, off, bi.symbolic_expressions[off])
                    may.append(t)
                    if not outer or (0 <= off < bi.size):
                        must.append(t)
        return must, may
    raise KeyError(method)


def judge(w, scope_label, kind, method, q, got):
    """Compare an answer (list of objects / triples as returned) with the
    fresh scan. Raises through w.violate on disagreement."""
    owner = (PROP_OF[method],)
    scope = w.objs[scope_label]
    res = scan(w, scope, kind, method, q)
    where = "%s.%s(%r)" % (scope_label, method, q)
    if res[0] == "exact":
        if got != res[1]:
            w.violate(owner, "scan:" + method, "%s = %r, formula over byte_intervals gives %r" % (where, got, res[1]))
        return
    must, may = res
    if method.startswith("symbolic_expressions_at"):
        ids = lambda t: (id(t[0]), t[1], id(t[2]))  # noqa
        desc = lambda t: (w.L(t[0]), t[1], se_view(w, t[2]))  # noqa
        for t in got:
            if not (isinstance(t, tuple) and len(t) == 3):
                w.violate(owner, "scan:" + method + ":shape", "%s returned %r" % (where, t))
        got_ids = [ids(t) for t in got]
        if len(set(got_ids)) != len(got_ids):
            w.violate(owner, "scan:" + method + ":twice", "%s returned an entry twice: %r" % (where, [desc(t) for t in got]))
        may_ids = {ids(t) for t in may}
        for t in got:
            if ids(t) not in may_ids:
                w.violate(owner, "scan:" + method + ":extra", "%s returned %r; scan allows %r" % (where, desc(t), [desc(x) for x in may]))
        gs = set(got_ids)
        for t in must:
            if ids(t) not in gs:
                w.violate(owner, "scan:" + method + ":missing", "%s misses %r; returned %r" % (where, desc(t), [desc(x) for x in got]))
        if kind == "bi":
            offs = [t[1] for t in got]
            if offs != sorted(offs):
                w.violate(owner, "scan:" + method + ":order", "%s not in increasing offset order: %r" % (where, offs))
        return
    got_ids = [id(x) for x in got]
    if len(set(got_ids)) != len(got_ids):
        w.violate(owner, "scan:" + method + ":twice", "%s returned a node twice: %r" % (where, w.Ls(got)))
    may_ids = {id(x) for x in may}
    for x in got:
        if id(x) not in may_ids:
            w.violate(owner, "scan:" + method + ":extra", "%s returned %s; scan allows %r (must %r)" % (where, w.L(x), w.Ls(may), w.Ls(must)))
    gs = set(got_ids)
    for x in must:
        if id(x) not in gs:
            w.violate(owner, "scan:" + method + ":missing", "%s misses %s; returned %r" % (where, w.L(x), w.Ls(got)))


def canon_answer(w, method, r):
    if method in ("address", "size"):
        return r
    if method.startswith("symbolic_expressions_at"):
        return sorted(([w.L(t[0]), t[1], list(se_view(w, t[2]))] for t in r), key=repr)
    return w.Ls(r)


@register
class Lookup(Op):
    """{"op":"lookup","scope":L,"method":M,"q":int|[start,stop,step]|None}"""

    name = "lookup"
    family = "lookup"

    def labels(self, op):
        return [(op["scope"], ("bi", "sec", "mod", "ir"))]

    def ready(self, w, op):
        k = w.m.nodes[op["scope"]].kind
        if op["method"] not in METHODS[k]:
            return False
        q = op.get("q")
        if isinstance(q, list) and q[2] < 1 and (q[2] == 0 or w.cfg.get("judge_scan", True)):
            return False  # C05/C06/C13 speak about positive steps; C12 ("any lookup") also compares descending ranges across schedules
        if "worlds" in op and w.cfg.get("world_index") not in op["worlds"]:
            return False
        return True

    def run(self, w, op):
        S = w.objs[op["scope"]]
        m = op["method"]
        if m in ("address", "size"):
            out = capture(lambda: getattr(S, m))
        else:
            q = mk_query(op["q"])
            # results are consumed immediately (I9)
            out = capture(lambda: list(getattr(S, m)(q)))
        if out.kind == "ok":
            with w.seams.observing():
                try:
                    out.value = canon_answer(w, m, out.raw)
                except Exception as e:  # malformed answer
                    out.value = "uncanonical:%s" % type(e).__name__
        return out

    def model(self, w, op, out):
        m = op["method"]
        w.counters["lookup:" + PROP_OF[m]] += 1
        if out.kind != "ok":
            if not w.cfg.get("judge_scan", True):
                return None
            return Exp("ok", value=None, owner=(PROP_OF[m],))
        if not w.cfg.get("judge_scan", True) or not w.owns((PROP_OF[m],)):
            return None  # C12: only the pairwise comparison across schedules decides
        kind = w.m.nodes[op["scope"]].kind
        judge(w, op["scope"], kind, m, op.get("q"), out.raw)
        return None
