"""Reference AuxData codec, written from include/gtirb/AuxData.hpp
('Serialization Format' comment and the auxdata_traits specialisations) and
AuxData.md. Shares no code with python/gtirb/serialization.py.

Values are in *canonical form* (cv), JSON-able:
  integers -> int; bool -> bool; string -> str
  float/double -> {"f32": hex} / {"f64": hex}   (raw IEEE bits, little-endian hex)
  UUID -> {"uuid": int}        (or {"node": label} in harness-side models)
  Offset -> {"offset": [uuid-cv, displacement]}
  sequence<T> -> [cv, ...]
  set<T> -> {"set": [cv, ...]}           (sorted, no duplicates)
  mapping<K,V> -> {"map": [[k, v], ...]} (sorted by key, keys unique)
  tuple<...> -> {"tuple": [cv, ...]}
  variant<...> -> {"variant": [index, cv]}
"""
import json
import struct

INTS = {
    "uint8_t": (1, False),
    "uint16_t": (2, False),
    "uint32_t": (4, False),
    "uint64_t": (8, False),
    "Addr": (8, False),
    "int8_t": (1, True),
    "int16_t": (2, True),
    "int32_t": (4, True),
    "int64_t": (8, True),
}
LEAVES = list(INTS) + ["bool", "float", "double", "string", "UUID", "Offset"]
KNOWN = set(LEAVES) | {"sequence", "set", "mapping", "tuple", "variant"}


class RefError(Exception):
    pass


# ---- type names ------------------------------------------------------------


def parse_type(s):
    """T ::= name | name '<' T (',' T)* '>' -> (name, [subtrees])"""
    pos = 0

    def name():
        nonlocal pos
        st = pos
        while pos < len(s) and s[pos] not in "<>,":
            pos += 1
        if pos == st:
            raise RefError("bad type name %r" % s)
        return s[st:pos]

    def T():
        nonlocal pos
        n = name()
        subs = []
        if pos < len(s) and s[pos] == "<":
            pos += 1
            subs.append(T())
            while pos < len(s) and s[pos] == ",":
                pos += 1
                subs.append(T())
            if pos >= len(s) or s[pos] != ">":
                raise RefError("bad type name %r" % s)
            pos += 1
        return (n, subs)

    t = T()
    if pos != len(s):
        raise RefError("bad type name %r" % s)
    return t


def type_str(t):
    if not t[1]:
        return t[0]
    return "%s<%s>" % (t[0], ",".join(type_str(x) for x in t[1]))


def has_unknown(t):
    return t[0] not in KNOWN or any(has_unknown(x) for x in t[1])


def key(cv):
    return json.dumps(cv, sort_keys=True)


# ---- encode ----------------------------------------------------------------


def u64(n):
    return struct.pack("<Q", n)


def encode(cv, t, uuid_of=None, order=None):
    """cv -> bytes. uuid_of(label) resolves {"node": label}. `order` (a
    random.Random) permutes set/mapping element order (unspecified by the
    format)."""
    out = bytearray()
    _enc(out, cv, t, uuid_of, order)
    return bytes(out)


def _uuid_int(cv, uuid_of):
    if "uuid" in cv:
        return cv["uuid"]
    return uuid_of(cv["node"])


def _enc(out, cv, t, uuid_of, order):
    n, subs = t
    if n in INTS:
        size, signed = INTS[n]
        out += int(cv).to_bytes(size, "little", signed=signed)
    elif n == "bool":
        out.append(1 if cv else 0)
    elif n == "float":
        out += bytes.fromhex(cv["f32"])
    elif n == "double":
        out += bytes.fromhex(cv["f64"])
    elif n == "string":
        b = cv.encode("utf-8")
        out += u64(len(b))
        out += b
    elif n == "UUID":
        out += _uuid_int(cv, uuid_of).to_bytes(16, "big")
    elif n == "Offset":
        ref, disp = cv["offset"]
        out += _uuid_int(ref, uuid_of).to_bytes(16, "big")
        out += u64(disp)
    elif n == "sequence":
        out += u64(len(cv))
        for x in cv:
            _enc(out, x, subs[0], uuid_of, order)
    elif n == "set":
        items = list(cv["set"])
        if order is not None:
            order.shuffle(items)
        out += u64(len(items))
        for x in items:
            _enc(out, x, subs[0], uuid_of, order)
    elif n == "mapping":
        items = list(cv["map"])
        if order is not None:
            order.shuffle(items)
        out += u64(len(items))
        for k, v in items:
            _enc(out, k, subs[0], uuid_of, order)
            _enc(out, v, subs[1], uuid_of, order)
    elif n == "tuple":
        for x, st in zip(cv["tuple"], subs):
            _enc(out, x, st, uuid_of, order)
    elif n == "variant":
        i, v = cv["variant"]
        out += u64(i)
        _enc(out, v, subs[i], uuid_of, order)
    else:
        raise RefError("unknown type %s" % n)


# ---- decode ----------------------------------------------------------------


def decode(b, t):
    """bytes -> (cv, consumed). UUIDs come back as {"uuid": int}."""
    cv, pos = _dec(b, 0, t)
    return cv, pos


def _take(b, pos, n):
    if pos + n > len(b):
        raise RefError("truncated")
    return b[pos : pos + n], pos + n


def ill_param(t):
    """A leaf name that carries a parameter list (uint16_t<vendor_ext>): no codec accepts it."""
    return (t[0] in LEAVES and bool(t[1])) or any(ill_param(x) for x in t[1])


def _dec(b, pos, t):
    n, subs = t
    if n in LEAVES and subs:
        raise RefError("ill-parametrised leaf type %s" % type_str(t))
    if n in INTS:
        size, signed = INTS[n]
        raw, pos = _take(b, pos, size)
        return int.from_bytes(raw, "little", signed=signed), pos
    if n == "bool":
        raw, pos = _take(b, pos, 1)
        return raw != b"\0", pos
    if n == "float":
        raw, pos = _take(b, pos, 4)
        return {"f32": raw.hex()}, pos
    if n == "double":
        raw, pos = _take(b, pos, 8)
        return {"f64": raw.hex()}, pos
    if n == "string":
        raw, pos = _take(b, pos, 8)
        k = struct.unpack("<Q", raw)[0]
        raw, pos = _take(b, pos, k)
        return raw.decode("utf-8"), pos
    if n == "UUID":
        raw, pos = _take(b, pos, 16)
        return {"uuid": int.from_bytes(raw, "big")}, pos
    if n == "Offset":
        raw, pos = _take(b, pos, 16)
        d, pos = _take(b, pos, 8)
        return {"offset": [{"uuid": int.from_bytes(raw, "big")}, struct.unpack("<Q", d)[0]]}, pos
    if n in ("sequence", "set", "mapping"):
        raw, pos = _take(b, pos, 8)
        k = struct.unpack("<Q", raw)[0]
        if k > len(b):
            raise RefError("element count %d exceeds input" % k)
        if n == "sequence":
            out = []
            for _ in range(k):
                x, pos = _dec(b, pos, subs[0])
                out.append(x)
            return out, pos
        if n == "set":
            d = {}
            for _ in range(k):
                x, pos = _dec(b, pos, subs[0])
                d[key(x)] = x
            return {"set": [d[kk] for kk in sorted(d)]}, pos
        d = {}
        for _ in range(k):
            kx, pos = _dec(b, pos, subs[0])
            vx, pos = _dec(b, pos, subs[1])
            d[key(kx)] = [kx, vx]  # later entry wins, as in a C++/Python map insert-or-assign
        return {"map": [d[kk] for kk in sorted(d)]}, pos
    if n == "tuple":
        out = []
        for st in subs:
            x, pos = _dec(b, pos, st)
            out.append(x)
        return {"tuple": out}, pos
    if n == "variant":
        raw, pos = _take(b, pos, 8)
        i = struct.unpack("<Q", raw)[0]
        if i >= len(subs):
            raise RefError("variant index out of range")
        v, pos = _dec(b, pos, subs[i])
        return {"variant": [i, v]}, pos
    raise RefError("unknown type %s" % n)


def canon(cv, t, uuid_of=None):
    """Canonical value for comparison: nodes -> uuids, sets/maps sorted and
    de-duplicated."""
    n, subs = t
    if n == "UUID":
        return {"uuid": _uuid_int(cv, uuid_of)}
    if n == "Offset":
        return {"offset": [{"uuid": _uuid_int(cv["offset"][0], uuid_of)}, cv["offset"][1]]}
    if n == "sequence":
        return [canon(x, subs[0], uuid_of) for x in cv]
    if n == "set":
        d = {}
        for x in cv["set"]:
            c = canon(x, subs[0], uuid_of)
            d[key(c)] = c
        return {"set": [d[k] for k in sorted(d)]}
    if n == "mapping":
        d = {}
        for k, v in cv["map"]:
            ck = canon(k, subs[0], uuid_of)
            d[key(ck)] = [ck, canon(v, subs[1], uuid_of)]
        return {"map": [d[k] for k in sorted(d)]}
    if n == "tuple":
        return {"tuple": [canon(x, st, uuid_of) for x, st in zip(cv["tuple"], subs)]}
    if n == "variant":
        i, v = cv["variant"]
        return {"variant": [i, canon(v, subs[i], uuid_of)]}
    if n in ("float",):
        return {"f32": cv["f32"]}
    return cv
