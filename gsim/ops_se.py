"""Operations on ByteInterval.symbolic_expressions (a mutable mapping offset ->
expression), run side by side with a built-in dict of specs."""
from .ops import Exp, Op, Out, capture, register
from .observe import se_view, se_model_view

C16 = ("C16",)


def spec_labels(spec):
    if spec is None:
        return []
    return [spec[2]] if spec[0] == "ac" else [spec[3], spec[4]]


def norm_spec(spec):
    """JSON list -> model tuple (attrs as frozenset)."""
    if spec[0] == "ac":
        return ("ac", spec[1], spec[2], frozenset(spec[3]))
    return ("aa", spec[1], spec[2], spec[3], spec[4], frozenset(spec[5]))


def mk_expr(w, spec):
    g = w.g
    A = g.SymbolicExpression.Attribute

    def attrs(xs):
        return [A[x] if isinstance(x, str) else x for x in xs]

    if spec[0] == "ac":
        if spec[3]:
            return g.SymAddrConst(spec[1], w.objs[spec[2]], attrs(spec[3]))
        return g.SymAddrConst(spec[1], w.objs[spec[2]])
    if spec[5]:
        return g.SymAddrAddr(spec[1], spec[2], w.objs[spec[3]], w.objs[spec[4]], attrs(spec[5]))
    return g.SymAddrAddr(spec[1], spec[2], w.objs[spec[3]], w.objs[spec[4]])


def canon_val(w, e):
    if e is None:
        return None
    if isinstance(e, (int, str)):
        return e
    return list(se_view(w, e))


def canon_spec(spec):
    return list(se_model_view(spec)) if spec is not None else None


@register
class SeOp(Op):
    """{"op":"se","bi":B,"method":M,"args":[...]}"""

    name = "se"
    family = "se_map"

    MUT = ("setitem", "delitem", "pop", "popitem", "setdefault", "update", "clear", "assign", "attr_add", "attr_discard", "move")
    PURE = ("getitem", "get", "contains", "len", "iter", "keys", "values", "items", "eq")

    def _specs(self, op):
        m, a = op["method"], op.get("args", [])
        if m in ("setitem", "setdefault"):
            return [a[1]]
        if m in ("update", "assign"):
            return [s for _, s in a[0]] if a else []
        if m == "pop" and len(a) > 1 and isinstance(a[1], list):
            return [a[1]]
        return []

    def labels(self, op):
        out = [(op["bi"], ("bi",))]
        for s in self._specs(op):
            for l in spec_labels(s):
                out.append((l, ("sym",)))
        if op["method"] == "assign" and op.get("from"):
            out.append((op["from"], ("bi",)))
        return out

    def touched(self, w, op):
        return [op["bi"]]

    def run(self, w, op):
        B = w.objs[op["bi"]]
        se = B.symbolic_expressions
        m, a = op["method"], op.get("args", [])
        if m == "setitem":
            e = mk_expr(w, a[1])

            def fn():
                se[a[0]] = e

        elif m == "delitem":

            def fn():
                del se[a[0]]

        elif m == "pop":
            if len(a) == 1:
                fn = lambda: se.pop(a[0])
            else:
                d = mk_expr(w, a[1]) if isinstance(a[1], list) else a[1]
                fn = lambda: se.pop(a[0], d)
        elif m == "popitem":
            fn = lambda: se.popitem()
        elif m == "setdefault":
            e = mk_expr(w, a[1])
            fn = lambda: se.setdefault(a[0], e)
        elif m == "update":
            pairs = [(k, mk_expr(w, s)) for k, s in a[0]]
            style = op.get("style", "dict")
            if style == "dict":
                arg = dict(pairs)
            elif style == "pairs":
                arg = pairs
            else:
                arg = iter(pairs)
            fn = lambda: se.update(arg)
        elif m == "clear":
            fn = lambda: se.clear()
        elif m == "assign":
            if op.get("from"):
                src = w.objs[op["from"]].symbolic_expressions

                def fn():
                    B.symbolic_expressions = src

            else:
                d = dict((k, mk_expr(w, s)) for k, s in a[0])

                def fn():
                    B.symbolic_expressions = d

        elif m == "move":

            def fn():
                se[a[1]] = se.pop(a[0])  # the very same expression object, at another offset

        elif m in ("attr_add", "attr_discard"):
            A = w.g.SymbolicExpression.Attribute
            x = A[a[1]] if isinstance(a[1], str) else a[1]

            def fn():
                e = se[a[0]]
                (e.attributes.add if m == "attr_add" else e.attributes.discard)(x)

        elif m == "getitem":
            fn = lambda: se[a[0]]
        elif m == "get":
            fn = lambda: se.get(a[0])
        elif m == "contains":
            fn = lambda: a[0] in se
        elif m == "len":
            fn = lambda: len(se)
        elif m in ("iter", "keys"):
            fn = (lambda: list(se)) if m == "iter" else (lambda: list(se.keys()))
        elif m == "values":
            fn = lambda: list(se.values())
        elif m == "items":
            fn = lambda: list(se.items())
        elif m == "eq":
            fn = lambda: se == dict(se.items())
        else:
            raise KeyError(m)
        out = capture(fn)
        if out.kind == "ok":
            r = out.raw
            with w.seams.observing():
                if m in ("pop", "getitem", "get", "setdefault"):
                    out.value = canon_val(w, r)
                elif m == "popitem":
                    out.value = [r[0], canon_val(w, r[1])]
                elif m == "values":
                    out.value = [canon_val(w, e) for e in r]
                elif m == "items":
                    out.value = [[k, canon_val(w, e)] for k, e in r]
                elif m in ("setitem", "delitem", "update", "clear", "assign", "attr_add", "attr_discard", "move"):
                    out.value = None
                else:
                    out.value = r
        return out

    def model(self, w, op, out):
        n = w.m.nodes[op["bi"]]
        D = n.a["se"]
        m, a = op["method"], op.get("args", [])
        exp = None
        if op.get("junk_key"):
            from .core import EndOfDomain

            # keys are offsets; a key of another type is outside every statement (a mapping that
            # iterates by offset cannot take it). Taken -> the run ends; refused -> nothing may
            # have changed, and every view of the mapping must still agree with every other.
            w.counters["probe:se_junk_key_" + ("taken" if out.kind == "ok" else "refused")] += 1
            if out.kind == "ok":
                raise EndOfDomain()
            se = w.objs[op["bi"]].symbolic_expressions
            views = {"len": len(se), "iter": len(list(se)), "items": len(list(se.items())), "keys": len(list(se.keys())), "values": len(list(se.values()))}
            if len(set(views.values())) != 1 or views["len"] != len(D) or any(k not in se for k in D) or a[0] in se:
                w.violate(C16, "se:inconsistent_after_refusal", "%s.symbolic_expressions after the refused %s(%r, ...): views %r, model has %d entries, refused key present: %r" % (op["bi"], m, a[0], views, len(D), a[0] in se))
            return Exp("any")
        try:
            if m == "setitem":
                D[a[0]] = [norm_spec(a[1])]
                val = None
            elif m == "delitem":
                del D[a[0]]
                val = None
            elif m == "pop":
                if len(a) == 1:
                    val = canon_spec(D.pop(a[0])[0])
                else:
                    if a[0] in D:
                        val = canon_spec(D.pop(a[0])[0])
                    else:
                        val = canon_spec(norm_spec(a[1])) if isinstance(a[1], list) else a[1]
            elif m == "popitem":
                if not D:
                    raise KeyError()
                if out.kind == "ok":
                    k = out.value[0]
                    if k in D and canon_spec(D[k][0]) == out.value[1]:
                        del D[k]
                        val = out.value
                    else:
                        exp = Exp("ok", owner=C16, alts=[[k2, canon_spec(v[0])] for k2, v in D.items()])
                        val = None
                else:
                    val = None
            elif m == "setdefault":
                if a[0] in D:
                    val = canon_spec(D[a[0]][0])
                else:
                    D[a[0]] = [norm_spec(a[1])]
                    val = canon_spec(D[a[0]][0])
            elif m == "update":
                for k, s in a[0]:
                    D[k] = [norm_spec(s)]
                val = None
            elif m == "clear":
                D.clear()
                val = None
            elif m == "assign":
                if op.get("from"):
                    src = dict(w.m.nodes[op["from"]].a["se"])
                    if op["from"] == op["bi"]:
                        # self-assignment is outside every statement; adopt
                        # whatever the implementation shows
                        live = w.objs[op["bi"]].symbolic_expressions
                        src = {k: v for k, v in src.items() if k in live}
                    D.clear()
                    D.update(src)
                else:
                    D.clear()
                    for k, s in a[0]:
                        D[k] = [norm_spec(s)]
                val = None
            elif m == "move":
                cell = D.pop(a[0])
                D[a[1]] = cell
                val = None
            elif m in ("attr_add", "attr_discard"):
                cell = D[a[0]]  # shared with every mapping holding this expression object
                spec = cell[0]
                at = set(spec[-1])
                (at.add if m == "attr_add" else at.discard)(a[1])
                cell[0] = spec[:-1] + (frozenset(at),)
                val = None
            elif m == "getitem":
                val = canon_spec(D[a[0]][0])
            elif m == "get":
                val = canon_spec(D[a[0]][0]) if a[0] in D else None
            elif m == "contains":
                val = a[0] in D
            elif m == "len":
                val = len(D)
            elif m in ("iter", "keys"):
                val = sorted(D)
            elif m == "values":
                val = [canon_spec(D[k][0]) for k in sorted(D)]
            elif m == "items":
                val = [[k, canon_spec(D[k][0])] for k in sorted(D)]
            elif m == "eq":
                val = True
            if exp is None:
                exp = Exp("ok", value=val, owner=C16)
        except KeyError:
            exp = Exp("exc", exc_cls=KeyError, owner=C16)
        return exp
