"""Value domains: small collision-heavy ranges mixed with boundary values."""

U64 = 2**64 - 1
I64MIN, I64MAX = -(2**63), 2**63 - 1

NAMES = ["", "a", "b", ".text", "é", "名前", "x\x00y", "a<b>,c", "main", "a", "rate%", "%s", "%(n)s {0}"]
ISA = ["Undefined", "ARM", "ARM64", "IA32", "PPC32", "PPC64", "MIPS32", "MIPS64", "X64", "ValidButUnsupported"]
FILE_FORMAT = ["Undefined", "COFF", "ELF", "IdaProDb32", "IdaProDb64", "MACHO", "PE", "RAW", "XCOFF"]
BYTE_ORDER = ["Undefined", "Big", "Little"]
SECTION_FLAGS = ["Undefined", "Readable", "Writable", "Executable", "Loaded", "Initialized", "ThreadLocal"]
DECODE_MODE = ["Default", "Thumb"]
EDGE_TYPE = ["Branch", "Call", "Fallthrough", "Return", "Syscall", "Sysret"]
SE_ATTRS = ["GOT", "GOTPC", "PLT", "PCREL", "TLS", "LO", "HI", "GOTNTPOFF", "G0", "HI16", "H", "NOTOC", "GOTOFF"]
SE_UNKNOWN_ATTRS = [27, 999, 5000, 2**31 - 1]


def small(r, hi=40):
    return r.randrange(0, hi + 1)


def u64(r, boundary_p=0.15, hi=40):
    if r.random() < boundary_p:
        return r.choice([0, 1, 2**32, 2**63 - 1, 2**63, U64, U64 - 1, 2**32 - 1])
    return small(r, hi)


def i64(r, boundary_p=0.15):
    if r.random() < boundary_p:
        return r.choice([0, 1, -1, I64MIN, I64MAX, 2**32, -(2**32)])
    return r.randrange(-20, 21)


def name(r):
    return r.choice(NAMES)


def addr(r, cfg):
    """Interval address: None, small, or near the top of the address space
    (kept so that address + size + offsets stay representable)."""
    x = r.random()
    if x < cfg.get("p_addr_none", 0.2):
        return None
    if x < cfg.get("p_addr_none", 0.2) + cfg.get("p_boundary", 0.1):
        return r.choice([0, 1, 2**32, 2**63, U64 - 64, U64 - 1, U64])
    return small(r, cfg.get("addr_hi", 40))


def size(r, cfg):
    x = r.random()
    if x < 0.15:
        return 0
    if x < 0.15 + cfg.get("p_boundary", 0.1) * 0.5:
        return r.choice([1, 2**32, 2**63])
    return small(r, cfg.get("size_hi", 12))
