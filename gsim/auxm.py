"""AuxData helpers: type and value generation (canonical form, see refcodec),
conversion to and from the Python values gtirb uses, in-place mutation."""
import struct
import uuid as _uuid

from . import refcodec as R
from . import values as V

HASHABLE_LEAVES = list(R.INTS) + ["bool", "string", "UUID", "Offset", "double", "float"]
# names the grammar allows and this API has no codec for; blanks are ordinary name characters
UNKNOWN_NAMES = ["foo", "byte", "my_type", "acme blob v2", " string", "int64_t "]


def gen_type(r, depth=3, hashable=False, allow_unknown=False, allow_variant=True, allow_unordered=True):
    """Random type tree. `hashable`: the Python representation must be
    hashable (set elements, mapping keys)."""
    if allow_unknown and r.random() < 0.12:
        return (r.choice(UNKNOWN_NAMES), [])
    if depth <= 0 or r.random() < 0.35:
        if hashable:
            # floats as set elements are legal but NaN != NaN makes "equal
            # value" ill-defined; keep them out of hashable positions
            return (r.choice([x for x in HASHABLE_LEAVES if x not in ("double", "float")]), [])
        return (r.choice(R.LEAVES), [])
    kinds = ["tuple"]
    if allow_variant:
        kinds.append("variant")
    if not hashable:
        kinds += ["sequence", "set", "mapping", "sequence", "mapping"] if allow_unordered else ["sequence", "sequence"]
    k = r.choice(kinds)
    if k == "sequence":
        return (k, [gen_type(r, depth - 1, False, allow_unknown, allow_variant, allow_unordered)])
    if k == "set":
        return (k, [gen_type(r, depth - 1, True, allow_unknown, allow_variant, allow_unordered)])
    if k == "mapping":
        return (k, [gen_type(r, depth - 1, True, allow_unknown, allow_variant, allow_unordered), gen_type(r, depth - 1, False, allow_unknown, allow_variant, allow_unordered)])
    n = r.randrange(1, 4)
    if r.random() < 0.12:
        # the arities at the edge of what the repository's Java codecs support
        # (tuples up to 5, variants of 2, 3 and 11 alternatives), with leaf fields
        n = r.choice([4, 5, 6]) if k == "tuple" else 11
        depth = 1
    return (k, [gen_type(r, depth - 1, hashable, allow_unknown, allow_variant, allow_unordered) for _ in range(n)])


def unhashable_position(t, need_hash=False):
    """Does the type put a sequence/set/mapping (whose Python decoding is
    list/set/dict) where a hashable value is needed?"""
    n, subs = t
    if need_hash and n in ("sequence", "set", "mapping"):
        return True
    if n == "set":
        return unhashable_position(subs[0], True)
    if n == "mapping":
        return unhashable_position(subs[0], True) or unhashable_position(subs[1], need_hash)
    return any(unhashable_position(s, need_hash) for s in subs)


def variant_in_hash_position(t, need_hash=False):
    n, subs = t
    if need_hash and n == "variant":
        return True
    if n == "set":
        return variant_in_hash_position(subs[0], True)
    if n == "mapping":
        return variant_in_hash_position(subs[0], True) or variant_in_hash_position(subs[1], need_hash)
    return any(variant_in_hash_position(s, need_hash) for s in subs)


STRINGS = ["", "a", "hello", "é", "名前", "x\x00y", "a<b>,c", "\U0001F600", "ß" * 3, "tab\t", "\ufeffabc", "\ufeff", "a\ufeffb", "\u200f\u0301x", "\x7f\x80\xff", "\ud7ff\ue000"]
F64 = [0.0, -0.0, 1.5, -2.25, float("inf"), float("-inf"), 1e308, 5e-324, 3.141592653589793]
F64_BITS = ["000000000000f87f", "010000000000f07f", "010000000000f8ff"]  # NaNs with payloads
F32 = [0.0, -0.0, 1.5, float("inf"), float("-inf"), 3.4028234663852886e38, 1.401298464324817e-45]


def gen_value(w, r, t, depth=0):
    """Random canonical value of type t. Node references use labels of live
    nodes (or free UUIDs)."""
    n, subs = t
    if n in R.INTS:
        size, signed = R.INTS[n]
        lo = -(1 << (8 * size - 1)) if signed else 0
        hi = (1 << (8 * size - 1)) - 1 if signed else (1 << (8 * size)) - 1
        x = r.random()
        if x < 0.2:
            return r.choice([lo, hi, 0, hi - 1, lo + 1 if signed else 1])
        if x < 0.4:
            # every place where an encoding changes shape: sign bit / byte / width boundaries
            pool = [v for b in (7, 8, 15, 16, 31, 32, 63) for v in ((1 << b) - 1, 1 << b, -(1 << b), -(1 << b) - 1, -(1 << b) + 1) if lo <= v <= hi] + [-1 if signed else 1]
            return r.choice(pool)
        return r.randrange(max(lo, -50), min(hi, 50) + 1)
    if n == "bool":
        return r.random() < 0.5
    if n == "double":
        if r.random() < 0.15:
            return {"f64": r.choice(F64_BITS)}
        return {"f64": struct.pack("<d", r.choice(F64)).hex()}
    if n == "float":
        if r.random() < 0.1:
            return {"f32": "0000c07f"}
        return {"f32": struct.pack("<f", r.choice(F32)).hex()}
    if n == "string":
        return r.choice(STRINGS)
    if n == "UUID":
        return gen_ref(w, r)
    if n == "Offset":
        return {"offset": [gen_ref(w, r), V.u64(r)]}
    k = 0 if depth > 2 else r.choice([0, 1, 2, 3])
    if n == "sequence":
        return [gen_value(w, r, subs[0], depth + 1) for _ in range(k)]
    if n == "set":
        d = {}
        for _ in range(k):
            x = gen_value(w, r, subs[0], depth + 1)
            d[R.key(R.canon(x, subs[0], w_uuid_of(w)))] = x
            for y in _variant_twins(r, subs[0], x):
                d[R.key(R.canon(y, subs[0], w_uuid_of(w)))] = y
        return {"set": [d[kk] for kk in sorted(d)]}
    if n == "mapping":
        d = {}
        for _ in range(k):
            kx = gen_value(w, r, subs[0], depth + 1)
            d[R.key(R.canon(kx, subs[0], w_uuid_of(w)))] = [kx, gen_value(w, r, subs[1], depth + 1)]
            for ky in _variant_twins(r, subs[0], kx):
                d[R.key(R.canon(ky, subs[0], w_uuid_of(w)))] = [ky, gen_value(w, r, subs[1], depth + 1)]
        return {"map": [d[kk] for kk in sorted(d)]}
    if n == "tuple":
        return {"tuple": [gen_value(w, r, st, depth + 1) for st in subs]}
    if n == "variant":
        i = r.randrange(len(subs))
        return {"variant": [i, gen_value(w, r, subs[i], depth + 1)]}
    raise R.RefError("cannot generate value of unknown type %s" % n)


def _variant_twins(r, t, cv):
    """For a variant member / key: the SAME payload under another alternative whose type takes
    it too (variant<uint8_t,int64_t>: (0, 7) and (1, 7)) - different values that a careless
    equality would merge."""
    if t[0] != "variant" or r.random() > 0.5:
        return []
    i, v = cv["variant"]
    out = []
    for j, st in enumerate(t[1]):
        if j == i:
            continue
        try:
            R.encode(v, st)
        except Exception:  # noqa
            continue
        if st[0] in R.INTS and t[1][i][0] in R.INTS or st == t[1][i]:
            out.append({"variant": [j, v]})
            break
    return out


def gen_ref(w, r):
    """A reference for a UUID / Offset entry. A few "hot" nodes are named again and again, so
    that several tables (of one container, of several generations) name the SAME node - whose
    attachment may change between the moments those tables are decoded."""
    hot = w.__dict__.setdefault("hot_refs", [])
    hot[:] = [l for l in hot if l in w.m.nodes]
    if hot and r.random() < 0.45:
        return {"node": hot[r.randrange(len(hot))]}
    labels = [l for l in w.m.nodes]
    if labels and r.random() < 0.7:
        l = labels[r.randrange(len(labels))]
        hot.append(l)
        del hot[:-3]
        return {"node": l}
    if r.random() < 0.08:
        return {"uuid": r.choice([0, (1 << 128) - 1])}  # nil / max UUID as a plain value
    return {"uuid": r.getrandbits(128)}


def w_uuid_of(w):
    def f(label):
        n = w.m.nodes.get(label)
        if n is None:
            # a node that is gone: fall back to the UUID remembered at creation
            return w.label_uuid[label]
        return n.uuid

    return f


def f64_from(cv):
    return struct.unpack("<d", bytes.fromhex(cv["f64"]))[0]


def f32_from(cv):
    return struct.unpack("<f", bytes.fromhex(cv["f32"]))[0]


def to_impl(w, t, cv, node_objects=True, hashable=False):
    """canonical value -> the Python value a gtirb user would write. In
    hashable positions (set elements, mapping keys) sequences are written as
    tuples and sets as frozensets."""
    g = w.g
    n, subs = t
    if hashable and n == "sequence":
        return tuple(to_impl(w, subs[0], x, node_objects, True) for x in cv)
    if hashable and n == "set":
        return frozenset(to_impl(w, subs[0], x, node_objects, True) for x in cv["set"])
    if n in R.INTS or n in ("bool", "string"):
        return cv
    if n == "double":
        return f64_from(cv)
    if n == "float":
        return f32_from(cv)
    if n == "UUID":
        return _ref_impl(w, cv, node_objects)
    if n == "Offset":
        return g.Offset(_ref_impl(w, cv["offset"][0], node_objects), cv["offset"][1])
    if n == "sequence":
        return [to_impl(w, subs[0], x, node_objects) for x in cv]
    if n == "set":
        return set(to_impl(w, subs[0], x, node_objects, True) for x in cv["set"])
    if n == "mapping":
        return dict((to_impl(w, subs[0], k, node_objects, True), to_impl(w, subs[1], v, node_objects, hashable)) for k, v in cv["map"])
    if n == "tuple":
        return tuple(to_impl(w, st, x, node_objects, hashable) for x, st in zip(cv["tuple"], subs))
    if n == "variant":
        i, v = cv["variant"]
        return g.Variant(i, to_impl(w, subs[i], v, node_objects, hashable))
    raise R.RefError(n)


def _ref_impl(w, cv, node_objects):
    if "node" in cv and node_objects and cv["node"] in w.objs:
        return w.objs[cv["node"]]
    return _uuid.UUID(int=R._uuid_int(cv, w_uuid_of(w)))


class Uncanonical(Exception):
    pass


def from_impl(w, t, v):
    """Python value as returned by gtirb -> canonical value with UUIDs only
    ({"uuid": int}); raises Uncanonical when the value is not of type t."""
    g = w.g
    n, subs = t
    try:
        if n in R.INTS:
            if isinstance(v, bool) or not isinstance(v, int):
                raise Uncanonical("%r is not an int" % (v,))
            return v
        if n == "bool":
            if not isinstance(v, bool):
                raise Uncanonical("%r is not a bool" % (v,))
            return v
        if n == "string":
            if not isinstance(v, str):
                raise Uncanonical("%r is not a str" % (v,))
            return v
        if n == "double":
            return {"f64": struct.pack("<d", v).hex()}
        if n == "float":
            return {"f32": struct.pack("<f", v).hex()}
        if n == "UUID":
            return {"uuid": _ref_int(w, v)}
        if n == "Offset":
            if not isinstance(v, g.Offset):
                raise Uncanonical("%r is not an Offset" % (v,))
            return {"offset": [{"uuid": _ref_int(w, v.element_id)}, v.displacement]}
        if n == "sequence":
            if not isinstance(v, (list, tuple, bytes, bytearray)):
                raise Uncanonical("%r is not a sequence" % (v,))
            return [from_impl(w, subs[0], x) for x in v]
        if n == "set":
            if not isinstance(v, (set, frozenset, list, tuple, bytes, bytearray)):
                raise Uncanonical("%r is not a set" % (v,))
            d = {}
            for x in v:
                c = from_impl(w, subs[0], x)
                d[R.key(c)] = c
            return {"set": [d[k] for k in sorted(d)]}
        if n == "mapping":
            if not isinstance(v, dict):
                raise Uncanonical("%r is not a dict" % (v,))
            d = {}
            for k, x in v.items():
                ck = from_impl(w, subs[0], k)
                d[R.key(ck)] = [ck, from_impl(w, subs[1], x)]
            return {"map": [d[k] for k in sorted(d)]}
        if n == "tuple":
            if not isinstance(v, tuple) or len(v) != len(subs):
                raise Uncanonical("%r is not a %d-tuple" % (v, len(subs)))
            return {"tuple": [from_impl(w, st, x) for x, st in zip(v, subs)]}
        if n == "variant":
            if not isinstance(v, g.Variant):
                raise Uncanonical("%r is not a Variant" % (v,))
            return {"variant": [v.index, from_impl(w, subs[v.index], v.val)]}
    except (AttributeError, IndexError, struct.error) as e:
        raise Uncanonical("%r: %s" % (v, e))
    raise Uncanonical("unknown type %s" % n)


def _ref_int(w, v):
    if isinstance(v, _uuid.UUID):
        return v.int
    if isinstance(v, w.g.Node):
        return v.uuid.int
    raise Uncanonical("%r is neither UUID nor Node" % (v,))


def refs_in(t, v, g, out):
    """Collect the UUID-typed leaves of an implementation value: (object)."""
    n, subs = t
    if n == "UUID":
        out.append(v)
    elif n == "Offset":
        out.append(v.element_id)
    elif n == "sequence" or n == "set":
        for x in v:
            refs_in(subs[0], x, g, out)
    elif n == "mapping":
        for k, x in v.items():
            refs_in(subs[0], k, g, out)
            refs_in(subs[1], x, g, out)
    elif n == "tuple":
        for x, st in zip(v, subs):
            refs_in(st, x, g, out)
    elif n == "variant":
        refs_in(subs[v.index], v.val, g, out)


def f32_equal(a, b):
    fa, fb = f32_from(a), f32_from(b)
    if fa != fa and fb != fb:
        return True
    return a["f32"] == b["f32"]


def cv_equal(a, b, t):
    """Equality of canonical values (UUID-normalised), float32 NaN only as NaN."""
    n, subs = t
    if n == "float":
        return f32_equal(a, b)
    if n == "sequence":
        return len(a) == len(b) and all(cv_equal(x, y, subs[0]) for x, y in zip(a, b))
    if n == "set":
        return len(a["set"]) == len(b["set"]) and all(cv_equal(x, y, subs[0]) for x, y in zip(a["set"], b["set"]))
    if n == "mapping":
        return len(a["map"]) == len(b["map"]) and all(cv_equal(x[0], y[0], subs[0]) and cv_equal(x[1], y[1], subs[1]) for x, y in zip(a["map"], b["map"]))
    if n == "tuple":
        return all(cv_equal(x, y, st) for x, y, st in zip(a["tuple"], b["tuple"], subs))
    if n == "variant":
        return a["variant"][0] == b["variant"][0] and cv_equal(a["variant"][1], b["variant"][1], subs[a["variant"][0]])
    return a == b


def mutate_in_place(w, r_seed, t, v):
    """Deterministic in-place mutation of a decoded implementation value: the first mutable
    container found (top level, or nested below tuples / variants / sequence elements /
    mapping values) gets an element added or removed. Returns True if something was mutated."""
    n, subs = t
    if n == "sequence" and isinstance(v, list):
        if r_seed % 4 == 3 and v and _nested(w, r_seed, subs[0], v[0]):
            return True
        if v and r_seed % 2:
            v.pop()
        else:
            v.append(to_impl(w, subs[0], default_value(subs[0])))
        return True
    if n == "set" and isinstance(v, set):
        x = to_impl(w, subs[0], default_value(subs[0]), True, True)
        if x in v:
            v.discard(x)
        else:
            v.add(x)
        return True
    if n == "mapping" and isinstance(v, dict):
        if r_seed % 4 == 3 and v:
            # pick the key by its CANONICAL form (repr of a Variant holds its address)
            k0 = sorted(v, key=lambda kk: R.key(from_impl(w, subs[0], kk)))[0]
            if _nested(w, r_seed, subs[1], v[k0]):
                return True
        k = to_impl(w, subs[0], default_value(subs[0]), True, True)
        if k in v:
            del v[k]
        else:
            v[k] = to_impl(w, subs[1], default_value(subs[1]))
        return True
    return _nested(w, r_seed, t, v)


def _nested(w, r_seed, t, v):
    n, subs = t
    if n == "tuple" and isinstance(v, tuple):
        for x, st in zip(v, subs):
            if mutate_in_place(w, r_seed, st, x):
                return True
        return False
    if n == "variant" and hasattr(v, "val"):
        return mutate_in_place(w, r_seed, subs[v.index], v.val)
    if n == "sequence" and isinstance(v, list):
        return mutate_in_place(w, r_seed, t, v)
    if n == "set" and isinstance(v, set):
        return mutate_in_place(w, r_seed, t, v)
    if n == "mapping" and isinstance(v, dict):
        return mutate_in_place(w, r_seed, t, v)
    return False


def has_mutable(t, hashable=False):
    """Does a value of this type contain a mutable Python container reachable without
    passing through a hashable position?"""
    n, subs = t
    if n in ("sequence", "set", "mapping"):
        return not hashable
    if n in ("tuple", "variant"):
        return any(has_mutable(s, hashable) for s in subs)
    return False


def default_value(t):
    n, subs = t
    if n in R.INTS:
        return 1
    if n == "bool":
        return True
    if n == "double":
        return {"f64": struct.pack("<d", 0.5).hex()}
    if n == "float":
        return {"f32": struct.pack("<f", 0.5).hex()}
    if n == "string":
        return "mut"
    if n == "UUID":
        return {"uuid": 0x1234}
    if n == "Offset":
        return {"offset": [{"uuid": 0x1234}, 7]}
    if n == "sequence":
        return []
    if n == "set":
        return {"set": []}
    if n == "mapping":
        return {"map": []}
    if n == "tuple":
        return {"tuple": [default_value(s) for s in subs]}
    if n == "variant":
        return {"variant": [0, default_value(subs[0])]}
    raise R.RefError(n)
