"""The foreign peer: an in-process stand-in for "another GTIRB implementation".
It turns a model snapshot into a gtirb.proto.IR message WITHOUT using gtirb's
writer - it fills the generated message classes field by field from the model -
and encodes AuxData with the reference codec. Its emission style is drawn from
the `peer` stream.
"""
import struct

from . import auxm
from . import refcodec as R
from .ops import Exp, Op, Out, capture, register
from .persist import ENUM_DESC, SCHEMA_NAME, enum_number, se_attr_number, self_contained, snapshot


def ub(u):
    return u.to_bytes(16, "big")


def py_name_for_number(w, which, number):
    """Python enum member name whose schema constant has this number, or None
    if the Python enum lacks it."""
    g = w.g
    cls = {
        "isa": g.Module.ISA,
        "file_format": g.Module.FileFormat,
        "byte_order": g.Module.ByteOrder,
        "flags": g.Section.Flag,
        "decode_mode": g.CodeBlock.DecodeMode,
        "edge_type": g.Edge.Type,
        "se_attr": g.SymbolicExpression.Attribute,
    }[which]
    mod, en = ENUM_DESC[which]
    d = getattr(getattr(g.proto, mod), en).DESCRIPTOR
    for mem in cls:
        try:
            if d.values_by_name[SCHEMA_NAME[which](mem.name)].number == number:
                return mem.name
        except KeyError:
            continue
    return None


def schema_numbers(w, which):
    mod, en = ENUM_DESC[which]
    d = getattr(getattr(w.g.proto, mod), en).DESCRIPTOR
    return [v.number for v in d.values]


def sweep_enums(w, snap, r):
    """Overwrite enum-valued attributes in the peer's copy of the model with
    constants drawn from the SCHEMA (by number)."""
    nodes = snap["nodes"]
    swept = 0
    for l in snap["order"]:
        n = nodes[l]
        if n.kind == "mod":
            for which in ("isa", "file_format", "byte_order"):
                if r.random() < 0.6:
                    num = r.choice(schema_numbers(w, which))
                    nm = py_name_for_number(w, which, num)
                    n.a[which] = nm if nm is not None else "?schema#%d" % num
                    w.counters["enum:%s:%d" % (which, num)] += 1
                    swept += 1
        elif n.kind == "sec" and r.random() < 0.6:
            nums = r.sample(schema_numbers(w, "flags"), r.randrange(1, 5))
            for x in nums:
                w.counters["enum:flags:%d" % x] += 1
            n.a["flags"] = set((py_name_for_number(w, "flags", x) or "?schema#%d" % x) for x in nums)
            swept += 1
        elif n.kind == "cb" and r.random() < 0.5:
            num = r.choice(schema_numbers(w, "decode_mode"))
            w.counters["enum:decode_mode:%d" % num] += 1
            n.a["decode_mode"] = py_name_for_number(w, "decode_mode", num) or "?schema#%d" % num
            swept += 1
        elif n.kind == "bi":
            for off, cell in n.a["se"].items():
                if r.random() < 0.5:
                    nums = r.sample(schema_numbers(w, "se_attr"), r.randrange(1, 4))
                    for x in nums:
                        w.counters["enum:se_attr:%d" % x] += 1
                    attrs = frozenset((py_name_for_number(w, "se_attr", x) or "?schema#%d" % x) for x in nums)
                    cell[0] = cell[0][:-1] + (attrs,)
                    swept += 1
    irn = nodes[snap["ir"]]
    new = set()
    for s, t, lab in sorted(irn.a["cfg"], key=repr):
        if lab is not None and r.random() < 0.6:
            num = r.choice(schema_numbers(w, "edge_type"))
            w.counters["enum:edge_type:%d" % num] += 1
            lab = (py_name_for_number(w, "edge_type", num) or "?schema#%d" % num, lab[1], lab[2])
            swept += 1
        new.add((s, t, lab))
    irn.a["cfg"] = new
    return swept


def _num(w, which, name):
    if isinstance(name, str) and name.startswith("?schema#"):
        return int(name[8:])
    return enum_number(w, which, name)


def gen_unknown_table(w, r):
    """A table whose type involves a name without codec: known parts are well
    formed, unknown parts arbitrary bytes."""
    shape = r.choice(["leaf", "seq", "map", "tuple", "nested", "variant"])
    unk = (r.choice(auxm.UNKNOWN_NAMES), [])
    x = r.random()
    if x < 0.15:
        unk = (unk[0], [(r.choice(["int8_t", "string", "UUID"]), [])])  # foo<int8_t>: an unknown name with parameters
    elif x < 0.35:
        # a KNOWN leaf name carrying a parameter list that involves an unknown name: uint16_t<vendor_ext>
        unk = (r.choice(["uint16_t", "uint8_t", "int64_t", "string", "UUID", "bool"]), [unk])
    if shape == "leaf":
        t = unk
    elif shape == "seq":
        t = ("sequence", [unk])
    elif shape == "map":
        t = ("mapping", [("string", []), ("tuple", [unk, ("UUID", [])])])
    elif shape == "tuple":
        t = ("tuple", [("uint32_t", []), unk])
    elif shape == "variant":
        # the unknown name is ONE ALTERNATIVE of a variant; elements choosing the other one decode
        t = ("sequence", [("tuple", [("variant", [("string", []), unk]), ("uint8_t", [])])])
    else:
        t = ("mapping", [("string", []), ("sequence", [("tuple", [("int8_t", []), unk])])])
    raw = bytearray()

    def emit(tt):
        n, subs = tt
        if n not in R.KNOWN:
            raw.extend(bytes(r.randrange(256) for _ in range(r.randrange(0, 6))))
        elif n in R.LEAVES and subs:
            # what the bare leaf would occupy, then bytes only the vendor understands
            raw.extend(R.encode(auxm.gen_value(w, r, (n, [])), (n, []), auxm.w_uuid_of(w)))
            raw.extend(bytes(r.randrange(256) for _ in range(r.randrange(0, 4))))
        elif n in ("sequence", "set"):
            k = r.choice([0, 1, 2])
            raw.extend(struct.pack("<Q", k))
            for _ in range(k):
                emit(subs[0])
        elif n == "mapping":
            k = r.choice([0, 1, 2])
            raw.extend(struct.pack("<Q", k))
            for i in range(k):
                if subs[0][0] == "string":
                    raw.extend(R.encode("k%d" % i, subs[0]))
                else:
                    emit(subs[0])
                emit(subs[1])
        elif n == "tuple":
            for s in subs:
                emit(s)
        elif n == "variant":
            i = r.randrange(len(subs))
            raw.extend(struct.pack("<Q", i))
            emit(subs[i])
        else:
            raw.extend(R.encode(auxm.gen_value(w, r, tt), tt, auxm.w_uuid_of(w)))

    emit(t)
    return R.type_str(t), bytes(raw)


def encode_noncanonical(cv, t, uuid_of, r):
    """Reference encoding with set / mapping order permuted and, sometimes,
    one element listed twice (decodable, non-canonical)."""
    out = bytearray()

    def enc(cv, t):
        n, subs = t
        if n == "set":
            items = list(cv["set"])
            r.shuffle(items)
            if items and r.random() < 0.5:
                items.append(items[r.randrange(len(items))])
            out.extend(struct.pack("<Q", len(items)))
            for x in items:
                enc(x, subs[0])
        elif n == "mapping":
            items = list(cv["map"])
            r.shuffle(items)
            if items and r.random() < 0.5:
                items.append(items[r.randrange(len(items))])
            out.extend(struct.pack("<Q", len(items)))
            for k, v in items:
                enc(k, subs[0])
                enc(v, subs[1])
        elif n == "sequence":
            out.extend(struct.pack("<Q", len(cv)))
            for x in cv:
                enc(x, subs[0])
        elif n == "tuple":
            for x, st in zip(cv["tuple"], subs):
                enc(x, st)
        elif n == "variant":
            out.extend(struct.pack("<Q", cv["variant"][0]))
            enc(cv["variant"][1], subs[cv["variant"][0]])
        elif n == "bool" and cv is True and r.random() < 0.3:
            out.append(r.choice([2, 0x80, 0xFF]))  # any non-zero byte reads as true (C++ / Java / this API)
        else:
            out.extend(R.encode(cv, t, uuid_of))

    enc(cv, t)
    return bytes(out)


def build_message(w, snap, r, style):
    """snapshot -> serialized gtirb.proto.IR (without header)."""
    P = w.g.proto
    nodes = snap["nodes"]
    order = snap["order"]
    irn = nodes[snap["ir"]]
    msg = P.IR_pb2.IR()
    msg.uuid = ub(irn.uuid)
    msg.version = irn.a["version"]

    def perm(xs):
        xs = list(xs)
        if style.get("permute", True):
            r.shuffle(xs)
        return xs

    def kids(pl, kinds):
        return [l for l in order if nodes[l].parent == pl and nodes[l].kind in kinds]

    def aux(container, mnode):
        for name, tbl in mnode.a["aux"].items():
            ad = container[name]
            ad.type_name = tbl["type"]
            ad.data = tbl["raw"]

    vertices = []
    for ml in irn.a["modules"]:
        mn = nodes[ml]
        pm = msg.modules.add()
        pm.uuid = ub(mn.uuid)
        pm.name = mn.a["name"]
        pm.binary_path = mn.a["binary_path"]
        pm.preferred_addr = mn.a["preferred_addr"]
        pm.rebase_delta = mn.a["rebase_delta"]
        pm.isa = _num(w, "isa", mn.a["isa"])
        pm.file_format = _num(w, "file_format", mn.a["file_format"])
        pm.byte_order = _num(w, "byte_order", mn.a["byte_order"])
        if mn.a["entry_point"] is not None:
            pm.entry_point = ub(nodes[mn.a["entry_point"]].uuid)
        elif style.get("explicit_defaults"):
            pm.entry_point = b""
        for pl in perm(kids(ml, ("px",))):
            pm.proxies.add().uuid = ub(nodes[pl].uuid)
            vertices.append(nodes[pl].uuid)
        for sl in perm(kids(ml, ("sec",))):
            sn = nodes[sl]
            ps = pm.sections.add()
            ps.uuid = ub(sn.uuid)
            ps.name = sn.a["name"]
            ps.section_flags.extend(perm(_num(w, "flags", f) for f in sorted(sn.a["flags"])))
            for bl in perm(kids(sl, ("bi",))):
                bn = nodes[bl]
                pb = ps.byte_intervals.add()
                pb.uuid = ub(bn.uuid)
                if bn.a["address"] is None:
                    pb.has_address = False
                    if style.get("stale_address") and r.random() < 0.5:
                        pb.address = r.randrange(1, 2**40)
                else:
                    pb.has_address = True
                    pb.address = bn.a["address"]
                pb.size = bn.a["size"]
                pb.contents = bytes(bn.a["contents"])
                for kl in perm(kids(bl, ("cb", "db"))):
                    k = nodes[kl]
                    blk = pb.blocks.add()
                    blk.offset = k.a["offset"]
                    if k.kind == "cb":
                        blk.code.uuid = ub(k.uuid)
                        blk.code.size = k.a["size"]
                        blk.code.decode_mode = _num(w, "decode_mode", k.a["decode_mode"])
                        vertices.append(k.uuid)
                    else:
                        blk.data.uuid = ub(k.uuid)
                        blk.data.size = k.a["size"]
                for off in perm(bn.a["se"]):
                    s = bn.a["se"][off][0]
                    pe = pb.symbolic_expressions[off]
                    if s[0] == "ac":
                        pe.addr_const.offset = s[1]
                        pe.addr_const.symbol_uuid = ub(nodes[s[2]].uuid)
                    else:
                        pe.addr_addr.scale = s[1]
                        pe.addr_addr.offset = s[2]
                        pe.addr_addr.symbol1_uuid = ub(nodes[s[3]].uuid)
                        pe.addr_addr.symbol2_uuid = ub(nodes[s[4]].uuid)
                    pe.attribute_flags.extend(perm((_num(w, "se_attr", a) if isinstance(a, str) else a) for a in sorted(s[-1], key=repr)))
        for yl in perm(kids(ml, ("sym",))):
            yn = nodes[yl]
            py = pm.symbols.add()
            py.uuid = ub(yn.uuid)
            py.name = yn.a["name"]
            py.at_end = yn.a["at_end"]
            p = yn.a["payload"]
            if p is not None:
                if p[0] == "int":
                    py.value = p[1]
                else:
                    py.referent_uuid = ub(nodes[p[1]].uuid)
        aux(pm.aux_data, mn)
    vs = style.get("vertices", "all")
    if vs == "all":
        msg.cfg.vertices.extend(ub(v) for v in perm(vertices))
    elif vs == "some":
        msg.cfg.vertices.extend(ub(v) for v in perm(vertices)[: len(vertices) // 2])
    for s, t, lab in perm(sorted(irn.a["cfg"], key=repr)):
        e = msg.cfg.edges.add()
        e.source_uuid = ub(nodes[s].uuid)
        e.target_uuid = ub(nodes[t].uuid)
        if lab is not None:
            e.label.SetInParent()
            e.label.type = _num(w, "edge_type", lab[0])
            e.label.conditional = lab[1]
            e.label.direct = lab[2]
    aux(msg.aux_data, irn)
    return msg.SerializeToString()


def prepare_aux(w, snap, r, style):
    """The peer's AuxData: every table of the spec gets bytes produced by the
    reference codec (order permuted / elements repeated), plus tables of types
    gtirb has no codec for."""
    nodes = snap["nodes"]
    uuid_of = auxm.w_uuid_of(w)
    for cl in [snap["ir"]] + list(nodes[snap["ir"]].a["modules"]):
        tables = nodes[cl].a["aux"]
        for name in list(tables):
            tbl = tables[name]
            if tbl["cv"] is None:
                # an opaque table travels verbatim
                tbl.update({"type0": tbl["type"], "state": "untouched", "home": snap["ir"]})
                continue
            t = R.parse_type(tbl["type"])
            if style.get("noncanonical") and not auxm.variant_in_hash_position(t):
                raw = encode_noncanonical(tbl["cv"], t, uuid_of, r)
                w.counters["probe:peer_noncanonical_tables"] += 1
            else:
                raw = R.encode(tbl["cv"], t, uuid_of, order=r)
            tables[name] = {"type": tbl["type"], "cv": tbl["cv"], "raw": raw, "type0": tbl["type"], "state": "untouched", "home": snap["ir"]}
        if style.get("unknown_tables"):
            for i in range(r.randrange(0, 3)):
                tn, raw = gen_unknown_table(w, r)
                from .ops_aux import classify_raw

                c = classify_raw(raw, tn)
                cv = None if c[0] in ("blob", "illparam") else c[1]
                if c[0] == "value" and c[2] != len(raw):
                    continue
                tables["u%d" % i] = {"type": tn, "cv": cv, "raw": raw, "type0": tn, "state": "untouched", "home": snap["ir"]}
                if c[0] == "illparam":
                    # decoding reaches a leaf codec that is handed parameters: what a read does is
                    # not prescribed (today: DecodeError); the bytes must survive every save
                    tables["u%d" % i]["illparam"] = True
                    w.counters["probe:peer_illparam_tables"] += 1
                w.counters["probe:peer_unknown_tables"] += 1


@register
class PeerWrite(Op):
    """{"op":"peer_write","from":I,"path":P,"seed":k,"style":{...}}: the
    foreign writer emits the content of IR I (as the model has it), in its own
    style, to the simulated disk."""

    name = "peer_write"
    family = "peer"

    def labels(self, op):
        return [(op["from"], ("ir",))]

    def touched(self, w, op):
        return []

    def ready(self, w, op):
        return self_contained(w.m, op["from"], w.cfg.get("cross_module_refs", "none"))

    def run(self, w, op):
        import random

        r = random.Random(op["seed"])
        snap = snapshot(w, op["from"], writer="peer")
        style = op.get("style", {})
        if style.get("permute_modules"):
            # module order is list order: the peer emits its own order and expects it back
            # (kept only if backward cross-module references stay backward)
            mods = snap["nodes"][snap["ir"]].a["modules"]
            before = list(mods)
            r.shuffle(mods)

            class _M:
                pass

            if w.cfg.get("cross_module_refs", "none") != "none":
                live_order = list(w.m.nodes[op["from"]].a["modules"])
                w.m.nodes[op["from"]].a["modules"] = list(mods)
                try:
                    still = self_contained(w.m, op["from"], w.cfg.get("cross_module_refs", "none"))
                finally:
                    w.m.nodes[op["from"]].a["modules"] = live_order
                if not still:
                    mods[:] = before
            if mods != before:
                w.counters["probe:peer_module_order_permuted"] += 1
        if style.get("sweep_enums"):
            w.counters["probe:peer_enum_constants_swept"] += sweep_enums(w, snap, r)
        prepare_aux(w, snap, r, style)
        body = build_message(w, snap, r, style)
        w.disk.files[op["path"]] = b"GTIRB\0\0" + bytes([4]) + body
        w.disk.chunks[op["path"]] = [b"GTIRB", b"\0", b"\0", bytes([4]), body]
        w.snapshots[op["path"]] = snap
        for il in [il for il, p in w.saved_as.items() if p == op["path"]]:
            del w.saved_as[il]
        w.counters["probe:peer_files"] += 1
        out = Out("ok")
        out.value = None
        return out

    def model(self, w, op, out):
        return None
