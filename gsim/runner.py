"""Batch driver: builds the package from /repo's working tree, fans seeded runs
out over worker processes (one pool per protobuf backend), minimises and
replays violations, applies the known-findings file, writes evidence.

Exit codes: 0 = property held on everything explored; 1 = VIOLATION line
printed; 2 = HARNESS-ERROR (never a verdict).
"""
import argparse
import concurrent.futures as cf
import faulthandler
import json
import multiprocessing
import os
import resource
import subprocess
import sys
import time
import traceback

VERIF = os.path.dirname(os.path.dirname(os.path.abspath(__file__)))
BACKENDS = ("upb", "python")


class Ctx:
    g = None
    seams = None
    backend = None
    build_dir = None


CTX = Ctx()


def backend_of(run):
    return BACKENDS[run % 2]


def worker_init(build_dir, backend):
    """Runs in each worker before anything imports protobuf/gtirb."""
    os.environ["PROTOCOL_BUFFERS_PYTHON_IMPLEMENTATION"] = backend
    os.environ["PYTHONDONTWRITEBYTECODE"] = "1"
    sys.dont_write_bytecode = True
    sys.path.insert(0, build_dir)
    try:
        resource.setrlimit(resource.RLIMIT_AS, (3 << 30, 3 << 30))
    except Exception:
        pass
    faulthandler.enable()
    import gtirb  # noqa

    assert os.path.abspath(gtirb.__file__).startswith(os.path.abspath(build_dir) + os.sep), (
        "imported gtirb from %s, not from the build of /repo's working tree" % gtirb.__file__
    )
    from google.protobuf.internal import api_implementation

    impl = api_implementation.Type()
    assert (impl == "python") == (backend == "python"), (impl, backend)
    from gsim.core import Seams

    CTX.g = gtirb
    CTX.seams = Seams()
    CTX.seams.install(gtirb)
    CTX.backend = backend
    CTX.build_dir = build_dir


def _profile(prop, tier="quick"):
    from gsim import allprofiles  # noqa: registers everything
    from gsim.profiles import REGISTRY

    p = REGISTRY[prop]()
    p.tier = tier
    return p


def task_batch(prop, seed, runs, want_sample, tier="quick"):
    """Worker task: execute a list of run indexes, return compact summaries."""
    from gsim.sim import run_one

    faulthandler.dump_traceback_later(600, exit=True)
    prof = _profile(prop, tier)
    out = []
    for run in runs:
        t0 = time.process_time()
        dump = os.environ.get("GSIM_DUMP_RUN")
        if dump and int(dump) == run:
            from gsim.core import EventLog

            EventLog.trace = []
        r = prof.run(CTX, seed, run)
        if dump and int(dump) == run:
            with open(os.path.join(os.environ.get("GSIM_DUMP_DIR", "/tmp"), "gsim-trace-%d-%d-%s.txt" % (run, os.getpid(), r.digest[:8])), "w") as f:
                f.write("\n".join(EventLog.trace) + "\n" + json.dumps(r.ops, sort_keys=True) + "\n")
            EventLog.trace = None
        d = {
            "run": run,
            "digest": r.digest,
            "steps": r.steps,
            "violation": r.violation,
            "aborted": r.aborted,
            "harness_error": r.harness_error,
            "counters": r.counters,
            "nontrivial": r.nontrivial,
            "kind_seq_hash": r.kind_seq_hash,
            "state_hash": r.state_hash,
            "cpu": time.process_time() - t0,
        }
        if getattr(r, "extras", None):
            d["extras"] = r.extras
        if r.violation or r.harness_error or (want_sample and run == runs[0]):
            d["ops"] = r.ops
            d["cfg"] = r.cfg
            d["tail"] = getattr(r, "tail", None)
        out.append(d)
    faulthandler.cancel_dump_traceback_later()
    return out


def task_shrink(prop, seed, run, cfg, ops, violation):
    from gsim.sim import shrink

    faulthandler.dump_traceback_later(900, exit=True)
    prof = _profile(prop)
    r = prof.shrink(CTX, seed, run, cfg, ops, violation)
    faulthandler.cancel_dump_traceback_later()
    if r is None:
        return None
    return {"ops": r.ops, "violation": r.violation, "digest": r.digest, "cfg": r.cfg, "tail": getattr(r, "tail", None)}


def task_replay(prop, seed, run, cfg, ops):
    prof = _profile(prop)
    r = prof.run(CTX, seed, run, ops=ops, cfg=cfg)
    return {"violation": r.violation, "digest": r.digest, "aborted": r.aborted, "harness_error": r.harness_error, "tail": getattr(r, "tail", None), "steps": r.steps}


def make_pool(build_dir, backend, n):
    ctx = multiprocessing.get_context("fork")
    return cf.ProcessPoolExecutor(max_workers=n, mp_context=ctx, initializer=worker_init, initargs=(build_dir, backend))


# ---------------------------------------------------------------------------


def load_known():
    p = os.path.join(VERIF, "known_findings.json")
    if not os.path.exists(p):
        return {"findings": [], "fixed": []}
    return json.load(open(p))


def finding_matches(f, prop, v):
    if f.get("property") != prop:
        return False
    k = f.get("key", {})
    if k.get("check") and k["check"] != v["check"]:
        return False
    for s in k.get("detail_contains", []):
        if s not in v["detail"]:
            return False
    return True


def write_evidence(prop, ev):
    os.makedirs(os.path.join(VERIF, "evidence"), exist_ok=True)
    p = os.path.join(VERIF, "evidence", "%s.json" % prop)
    tmp = p + ".tmp"
    with open(tmp, "w") as f:
        json.dump(ev, f, indent=1, sort_keys=True, default=str)
    os.replace(tmp, p)


def main(argv=None):
    ap = argparse.ArgumentParser()
    ap.add_argument("prop")
    ap.add_argument("--tier", default=os.environ.get("VERIF_TIER", "quick"))
    ap.add_argument("--replay")
    ap.add_argument("--runs", type=int)
    ap.add_argument("--first-run", type=int, default=0)
    ap.add_argument("--seed", type=int, default=int(os.environ.get("VERIF_SEED", "0") or 0))
    ap.add_argument("--jobs", type=int, default=int(os.environ.get("GSIM_JOBS", "0") or 0))
    ap.add_argument("--digests", help="write run digests to this file (determinism self-test)")
    ap.add_argument("--no-evidence", action="store_true")
    ap.add_argument("--wall", type=float, help="wall-clock cap for the batch in seconds")
    ap.add_argument("--keep-going", action="store_true", help="do not stop at the first violating chunk")
    args = ap.parse_args(argv)
    tier = args.tier if args.tier in ("quick", "thorough") else "quick"
    t_start = time.time()
    sys.path.insert(0, VERIF)
    from gsim import build

    tag = "run-%d" % os.getpid()
    try:
        build_dir = build.build(tag)
    except Exception:
        traceback.print_exc()
        print("HARNESS-ERROR: build of /repo working tree failed")
        return 2
    try:
        return _main(args, tier, build_dir, t_start)
    except Exception:
        traceback.print_exc()
        print("HARNESS-ERROR: driver failed")
        return 2
    finally:
        build.clean(tag)


def _main(args, tier, build_dir, t_start):
    # The parent imports profiles only for metadata (no gtirb import there).
    from gsim import allprofiles  # noqa
    from gsim.profiles import REGISTRY

    if args.prop not in REGISTRY:
        print("HARNESS-ERROR: no profile for %s" % args.prop)
        return 2
    prof = REGISTRY[args.prop]()
    jobs = args.jobs or min(16, os.cpu_count() or 4)
    per = 1 if args.replay else max(1, jobs // 2)
    pools = LazyPools(build_dir, per)
    try:
        if args.replay:
            return do_replay(args, prof, pools)
        return do_batch(args, tier, prof, pools, t_start, jobs)
    finally:
        pools.shutdown()


class LazyPools(dict):
    def __init__(self, build_dir, per):
        super().__init__()
        self.build_dir, self.per = build_dir, per
        os.environ["GSIM_BUILD_DIR"] = build_dir

    def __missing__(self, b):
        self[b] = make_pool(self.build_dir, b, self.per)
        return self[b]

    def shutdown(self):
        for p in self.values():
            p.shutdown(wait=True, cancel_futures=True)


def do_replay(args, prof, pools):
    rp = json.load(open(args.replay))
    if "post_sample" in rp:
        post = prof.post_batch([{"extras": {"java": [rp["post_sample"]]}, "run": 0}], pools, pools.build_dir, 0)
        for pv in post.get("violations", []):
            print("violation: %s: %s" % (pv["check"], pv["detail"]))
            print("VIOLATION property=%s replay=%s" % (rp["property"], os.path.abspath(args.replay)))
            return 1
        print("replay did not reproduce a violation")
        return 0
    res = pools[rp["backend"]].submit(task_replay, rp["property"], rp["seed"], rp["run"], rp["cfg"], rp["ops"]).result(timeout=900)
    v = res["violation"]
    print("replay: steps=%d digest=%s" % (res["steps"], res["digest"]))
    if res["harness_error"]:
        print(res["harness_error"])
        print("HARNESS-ERROR: replay raised inside the harness")
        return 2
    if v is None:
        print("replay did not reproduce a violation (aborted=%r)" % res["aborted"])
        return 0
    print("violation: %s %s at step %d: %s" % (v["prop"], v["check"], v["step"], v["detail"]))
    same = res["digest"] == rp.get("digest") and v["check"] == rp["violation"]["check"]
    print("reproduces recorded failure exactly: %s" % same)
    print("VIOLATION property=%s replay=%s" % (v["prop"], os.path.abspath(args.replay)))
    return 1


def chunks(lo, hi, size):
    """Run indexes grouped by backend (parity), in chunks."""
    out = {b: [] for b in BACKENDS}
    for b_i, b in enumerate(BACKENDS):
        idx = [r for r in range(lo, hi) if r % 2 == b_i]
        for i in range(0, len(idx), size):
            out[b].append(idx[i : i + size])
    return out


def do_batch(args, tier, prof, pools, t_start, jobs):
    prop = args.prop
    nruns = args.runs or (prof.runs_quick if tier == "quick" else prof.runs_thorough)
    wall_cap = args.wall or (prof.wall_quick if tier == "quick" else prof.wall_thorough)
    lo = args.first_run
    hi = lo + nruns
    csize = prof.chunk
    ch = chunks(lo, hi, csize)
    futs = {}
    first = True
    for b in BACKENDS:
        for c in ch[b]:
            f = pools[b].submit(task_batch, prop, args.seed, c, first or (c[0] % 997 == 0), tier)
            first = False
            futs[f] = (b, c)
    results = []
    violations = []
    harness_errors = []
    deadline = t_start + wall_cap
    pending = set(futs)
    cut = False
    while pending:
        timeout = max(0.1, deadline - time.time())
        done, pending = cf.wait(pending, timeout=timeout, return_when=cf.FIRST_COMPLETED)
        for f in done:
            try:
                rs = f.result()
            except Exception as e:  # worker died
                harness_errors.append("worker failure on chunk %r: %r" % (futs[f], e))
                continue
            results.extend(rs)
            for d in rs:
                if d["violation"]:
                    violations.append(d)
                if d["harness_error"]:
                    harness_errors.append("run %d: %s" % (d["run"], d["harness_error"]))
        if (violations and not args.keep_going) or harness_errors:
            for f in pending:
                f.cancel()
            break
        if time.time() >= deadline and pending:
            cut = True
            for f in pending:
                f.cancel()
            # running chunks finish; wait for them briefly
            still = [f for f in pending if not f.cancelled()]
            done2, _ = cf.wait(still, timeout=60)
            for f in done2:
                try:
                    rs = f.result()
                    results.extend(rs)
                    for d in rs:
                        if d["violation"]:
                            violations.append(d)
                        if d["harness_error"]:
                            harness_errors.append("run %d: %s" % (d["run"], d["harness_error"]))
                except Exception:
                    pass
            break
    results.sort(key=lambda d: d["run"])
    if args.digests:
        with open(args.digests, "w") as f:
            for d in results:
                f.write("%d %s\n" % (d["run"], d["digest"]))
    if harness_errors:
        for h in harness_errors[:3]:
            print(h)
        print("HARNESS-ERROR: %d harness failures; no verdict" % len(harness_errors))
        return 2
    known = load_known()
    exit_code = 0
    reported = []
    known_hits = {}
    if violations:
        violations.sort(key=lambda d: d["run"])
        # group by check id; report the first of each class, shrink it
        seen_classes = set()
        for d in violations:
            v = d["violation"]
            kf = [f for f in known["findings"] if finding_matches(f, prop, v)]
            if kf:
                known_hits.setdefault(kf[0]["id"], d)
                continue
            cls = v["check"]
            if cls in seen_classes:
                continue
            seen_classes.add(cls)
            if len(reported) >= 3:
                continue
            rp = minimise_and_record(prop, args.seed, d, pools)
            reported.append(rp)
    post = None
    if not violations and hasattr(prof, "post_batch"):
        post = prof.post_batch(results, pools, pools.build_dir, args.seed)
        for pv in post.get("violations", []):
            os.makedirs(os.path.join(VERIF, "replays"), exist_ok=True)
            path = os.path.join(VERIF, "replays", "%s-%d-post-%s.json" % (prop, args.seed, pv["id"]))
            with open(path, "w") as f:
                json.dump({"property": prop, "post_sample": pv["sample"], "violation": {"prop": prop, "check": pv["check"], "detail": pv["detail"], "step": 0}}, f, indent=1)
            reported.append({"violation": {"check": pv["check"], "step": 0, "detail": pv["detail"]}, "ops": [], "verified": True, "path": path})
    ev = prof.evidence(prop, tier, args.seed, results, time.time() - t_start, cut, lo, hi, jobs, pools_info=BACKENDS)
    if post is not None:
        ev["coverage"].update(post.get("coverage", {}))
    ev["violations"] = len([d for d in violations if not any(finding_matches(f, prop, d["violation"]) for f in known["findings"])])
    for f in known["findings"]:
        if f.get("property") != prop:
            continue
        # a listed finding is re-confirmed by its stored replay
        ok = confirm_known(f, pools)
        print("KNOWN-FINDING: property=%s %s%s" % (prop, f["what"], "" if ok else " (stored replay no longer reproduces)"))
        ev.setdefault("coverage", {}).setdefault("known_findings", []).append({"id": f["id"], "reconfirmed": ok})
    if not args.no_evidence:
        write_evidence(prop, ev)
    cov = ev["coverage"]
    print(
        "%s %s: runs=%d steps=%d nontrivial_distinct=%d aborted=%d wall=%.1fs%s"
        % (prop, tier, cov["evaluations"], cov.get("steps", 0), cov["distinct_nontrivial"], cov.get("aborted_runs", 0), time.time() - t_start, " (wall cap hit)" if cut else "")
    )
    ab = [d for d in results if d["aborted"]]
    if ab:
        from collections import Counter as _C

        for reason, n in _C(d["aborted"][:700] for d in ab).most_common(4):
            print("  aborted x%d (first run %d): %s" % (n, min(d["run"] for d in ab if d["aborted"][:700] == reason), reason))
    js = (post or {}).get("coverage", {}).get("java_stage")
    if js is not None and js.get("status") != "ran":
        print("NOTE: %s Java cross-decoding stage did not run: %s" % (prop, js.get("status")))
        if "javac failed" in js.get("status", "") and exit_code == 0 and not reported:
            print("HARNESS-ERROR: the repository's Java codec sources do not compile; the Java clause of %s cannot be decided" % prop)
            exit_code = 2
    for rp in reported:
        print("violation: %s at step %d: %s" % (rp["violation"]["check"], rp["violation"]["step"], rp["violation"]["detail"][:600]))
        print("minimised to %d operations; replay verified in a fresh process: %s" % (len(rp["ops"]), rp.get("verified")))
        print("VIOLATION property=%s replay=%s" % (prop, rp["path"]))
        exit_code = 1
    return exit_code


def minimise_and_record(prop, seed, d, pools):
    b = backend_of(d["run"])
    v = d["violation"]
    ops, cfg = d["ops"], d["cfg"]
    digest = d["digest"]
    try:
        s = pools[b].submit(task_shrink, prop, seed, d["run"], cfg, ops, v).result(timeout=1200)
    except Exception as e:
        s = None
        print("shrink failed: %r" % (e,))
    if s is not None and s["violation"] is not None:
        ops, v, digest = s["ops"], s["violation"], s["digest"]
    else:
        # keep the unshrunk history; get its replay digest
        try:
            r0 = pools[b].submit(task_replay, prop, seed, d["run"], cfg, ops).result(timeout=600)
            digest = r0["digest"]
            if r0["violation"]:
                v = r0["violation"]
        except Exception:
            pass
    os.makedirs(os.path.join(VERIF, "replays"), exist_ok=True)
    path = os.path.join(VERIF, "replays", "%s-%d-%d.json" % (prop, seed, d["run"]))
    rp = {
        "property": prop,
        "seed": seed,
        "run": d["run"],
        "backend": b,
        "cfg": cfg,
        "ops": ops,
        "violation": v,
        "digest": digest,
        "original_ops": len(d["ops"]),
    }
    with open(path, "w") as f:
        json.dump(rp, f, indent=1, default=str)
    # fresh-process verification
    try:
        cp = subprocess.run(
            [sys.executable, os.path.join(VERIF, "gsim", "main.py"), prop, "--replay", path],
            capture_output=True,
            text=True,
            timeout=600,
            env=dict(os.environ, PYTHONHASHSEED="0"),
        )
        rp["verified"] = cp.returncode == 1 and "reproduces recorded failure exactly: True" in cp.stdout
    except Exception as e:
        rp["verified"] = False
    rp["path"] = path
    return rp


def confirm_known(f, pools):
    p = f.get("replay")
    if not p:
        return True
    p = os.path.join(VERIF, p)
    if not os.path.exists(p):
        return False
    rp = json.load(open(p))
    try:
        res = pools[rp["backend"]].submit(task_replay, rp["property"], rp["seed"], rp["run"], rp["cfg"], rp["ops"]).result(timeout=600)
    except Exception:
        return False
    return res["violation"] is not None and finding_matches(f, rp["property"], res["violation"])


if __name__ == "__main__":
    sys.exit(main())
