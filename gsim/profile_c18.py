"""C18: deep_eq is exact structural equality.

State-machine replication framing: two replicas A and B receive the same
operation log (same UUIDs); one of them then applies single extra operations
(perturbations) the other catches up with later. At every `deq` point

    A.deep_eq(B) == B.deep_eq(A) == (canonical model tree of A == that of B)

where the canonical tree holds every compared field (attributes, containment by
UUID, payloads, entry points, expressions with attributes, CFG edges with
labels, IR version, AuxData *keys*) and neither AuxData values nor module list
order. The set-iteration order is permuted per call, independently on the two
sides.
"""
import hashlib
import random
import traceback

from . import gen_index, gen_misc, gen_own, gen_persist, ops_aux, auxm
from . import refcodec as R
from . import values as V
from .core import Diverged, Streams, Violation, WatchdogTimeout
from .ops import OPS, capture, labels_exist
from .ops import execute_strict as execute
from .persist import self_contained
from .profiles import PERSIST_BASE, PersistProfile, Profile, profile, swarm_weights
from .sim import RunResult
from .world import World


def _rng(*parts):
    h = hashlib.sha256("/".join(str(p) for p in parts).encode()).digest()
    return random.Random(int.from_bytes(h[:16], "big"))


def canon_tree(m, label, uuid_of):
    """Canonical structure of the subtree at label: everything deep_eq is
    documented to compare, references by UUID, children sorted by UUID."""
    n = m.nodes[label]
    a = n.a
    u = lambda l: (uuid_of(l) if l is not None else None)  # noqa
    if n.kind == "ir":
        return (
            "ir", n.uuid, a["version"], sorted(a["aux"].keys()),
            sorted((canon_tree(m, x, uuid_of) for x in a["modules"]), key=repr),
            sorted(((u(s), u(t), lab) for s, t, lab in a["cfg"]), key=repr),
        )
    if n.kind == "mod":
        return (
            "mod", n.uuid, a["name"], a["binary_path"], a["isa"], a["file_format"], a["byte_order"], a["preferred_addr"], a["rebase_delta"],
            u(a["entry_point"]), sorted(a["aux"].keys()),
            sorted((canon_tree(m, x, uuid_of) for x in m.kids(label)), key=repr),
        )
    if n.kind == "sec":
        return ("sec", n.uuid, a["name"], sorted(a["flags"]), sorted((canon_tree(m, x, uuid_of) for x in m.kids(label)), key=repr))
    if n.kind == "bi":
        se = []
        for off in sorted(a["se"]):
            s = a["se"][off][0]
            if s[0] == "ac":
                se.append((off, "ac", s[1], u(s[2]), sorted(s[3], key=repr)))
            else:
                se.append((off, "aa", s[1], s[2], u(s[3]), u(s[4]), sorted(s[5], key=repr)))
        return ("bi", n.uuid, a["address"], a["size"], bytes(a["contents"]), se, sorted((canon_tree(m, x, uuid_of) for x in m.kids(label)), key=repr))
    if n.kind == "cb":
        return ("cb", n.uuid, a["offset"], a["size"], a["decode_mode"])
    if n.kind == "db":
        return ("db", n.uuid, a["offset"], a["size"])
    if n.kind == "px":
        return ("px", n.uuid)
    if n.kind == "sym":
        p = a["payload"]
        pp = None if p is None else (("int", p[1]) if p[0] == "int" else ("ref", u(p[1])))
        return ("sym", n.uuid, a["name"], a["at_end"], pp)
    raise KeyError(n.kind)


def different(r, cur, gen, tries=8):
    for _ in range(tries):
        v = gen()
        if v != cur:
            return v
    return None


def gen_perturbation(w, r, ir):
    """One operation (or short sequence) that changes exactly one compared
    field of something attached to `ir`. Returns (name, [ops], changes_answer)."""
    m = w.m
    sub = m.subtree(ir)
    by = lambda *k: [l for l in sub if m.nodes[l].kind in k]  # noqa
    choices = []
    mods, secs, bis, cbs, dbs, pxs, syms = by("mod"), by("sec"), by("bi"), by("cb"), by("db"), by("px"), by("sym")
    pick = lambda xs: xs[r.randrange(len(xs))]  # noqa

    def setattr_(l, attr, v):
        return [{"op": "setattr", "label": l, "attr": attr, "value": v}]

    kinds = []
    if mods:
        kinds += ["mod_attr", "mod_attr", "entry_point", "aux_key", "aux_value"]
    if secs:
        kinds += ["sec_name", "sec_flag"]
    if bis:
        kinds += ["bi_attr", "bi_attr", "bi_bytes", "se_add", "se_del", "se_attr", "se_field", "se_field"]
    if cbs or dbs:
        kinds += ["block_attr", "block_attr", "block_kind_swap", "uuid_change"]
    if syms:
        kinds += ["sym_attr", "sym_attr", "sym_payload", "sym_payload"]
    kinds += ["child_move", "child_exchange", "child_exchange"]
    kinds += ["child_add", "child_remove", "edge_add", "edge_remove", "edge_label", "ir_version", "ir_aux_key", "edge_reorder", "edge_reorder", "aux_reorder", "edge_add_remove"]
    k = pick(kinds)
    if k == "mod_attr":
        l = pick(mods)
        attr = pick(["name", "binary_path", "isa", "file_format", "byte_order", "preferred_addr", "rebase_delta"])
        cur = m.nodes[l].a[attr]
        gen = {
            "name": lambda: V.name(r), "binary_path": lambda: V.name(r), "isa": lambda: r.choice(V.ISA), "file_format": lambda: r.choice(V.FILE_FORMAT),
            "byte_order": lambda: r.choice(V.BYTE_ORDER), "preferred_addr": lambda: V.u64(r), "rebase_delta": lambda: V.i64(r),
        }[attr]
        v = different(r, cur, gen)
        return (k + ":" + attr, setattr_(l, attr, v), True) if v is not None else None
    if k == "entry_point":
        l = pick(mods)
        cur = m.nodes[l].a["entry_point"]
        local = [c for c in cbs if m.ancestor(c, "mod") == l]
        v = different(r, cur, lambda: pick(local + [None]))
        return (k, setattr_(l, "entry_point", v), True) if (v is not None or cur is not None) and v != cur else None
    if k in ("aux_key", "ir_aux_key"):
        c = ir if k == "ir_aux_key" else pick(mods)
        tables = m.nodes[c].a["aux"]
        if tables and r.random() < 0.5:
            return (k + ":del", [{"op": "aux_del", "c": c, "name": sorted(tables)[r.randrange(len(tables))]}], True)
        name = "k%d" % r.randrange(100)
        if name in tables:
            return None
        return (k + ":add", [{"op": "aux_new", "c": c, "name": name, "type": "uint8_t", "cv": r.randrange(256)}], True)
    if k == "aux_value":
        cands = [(c, nme) for c in [ir] + mods for nme, t in m.nodes[c].a["aux"].items() if t["cv"] is not None and not R.has_unknown(R.parse_type(t["type"])) and t["state"] != "retyped"]
        if not cands:
            return None
        c, nme = pick(cands)
        t = R.parse_type(m.nodes[c].a["aux"][nme]["type"])
        return (k, [{"op": "aux_assign", "c": c, "name": nme, "cv": auxm.gen_value(w, r, t)}], False)
    if k == "sec_name":
        l = pick(secs)
        v = different(r, m.nodes[l].a["name"], lambda: V.name(r))
        return (k, setattr_(l, "name", v), True) if v is not None else None
    if k == "sec_flag":
        l = pick(secs)
        f = r.choice(V.SECTION_FLAGS)
        op = "flag_discard" if f in m.nodes[l].a["flags"] else "flag_add"
        return (k + ":" + op, setattr_(l, op, f), True)
    if k == "bi_attr":
        l = pick(bis)
        attr = pick(["address", "size"])
        cur = m.nodes[l].a[attr]
        if attr == "address":
            v = different(r, cur, lambda: r.choice([None, 0, 1, V.small(r)]))
            if v == cur:
                return None
            return (k + ":address", setattr_(l, "address", v), True)
        v = different(r, cur, lambda: max(len(m.nodes[l].a["contents"]), V.small(r, 12)))
        return (k + ":size", setattr_(l, "size", v), True) if v is not None else None
    if k == "bi_bytes":
        l = pick(bis)
        n = m.nodes[l]
        c = bytes(n.a["contents"])
        if c and r.random() < 0.6:
            i = r.randrange(len(c))
            return (k + ":edit", [{"op": "bytes", "bi": l, "method": "edit", "args": [i, bytes([c[i] ^ 1]).hex()]}], True)
        if len(c) < n.a["size"]:
            return (k + ":grow", [{"op": "bytes", "bi": l, "method": "init_size", "args": [len(c) + 1]}], True)
        if c:
            return (k + ":shrink", [{"op": "bytes", "bi": l, "method": "init_size", "args": [len(c) - 1]}], True)
        return None
    if k == "se_add":
        l = pick(bis)
        mod = m.ancestor(l, "mod")
        local = [s for s in syms if m.ancestor(s, "mod") == mod]
        if not local:
            return None
        off = different(r, None, lambda: (lambda o: None if o in m.nodes[l].a["se"] else o)(V.small(r, 20)))
        if off is None:
            return None
        return (k, [{"op": "se", "bi": l, "method": "setitem", "args": [off, ["ac", V.i64(r), pick(local), []]]}], True)
    if k == "se_field":
        # one field of one expression: offset, scale, a symbol, or symbol1 <-> symbol2 exchanged
        cands = [(l, off) for l in bis for off in m.nodes[l].a["se"]]
        if not cands:
            return None
        l, off = pick(cands)
        sp = m.nodes[l].a["se"][off][0]
        mod = m.ancestor(l, "mod")
        local = [s_ for s_ in syms if m.ancestor(s_, "mod") == mod]
        attrs = sorted(sp[-1], key=repr)
        if sp[0] == "ac":
            what = pick(["offset", "symbol"])
            if what == "offset":
                new = ["ac", sp[1] + 1, sp[2], attrs]
            else:
                o = [x for x in local if x != sp[2]]
                if not o:
                    return None
                new = ["ac", sp[1], pick(o), attrs]
        else:
            what = pick(["scale", "offset", "swap", "swap", "symbol1"])
            if what == "scale":
                new = ["aa", 0 if sp[1] != 0 else 1, sp[2], sp[3], sp[4], attrs]
            elif what == "offset":
                new = ["aa", sp[1], sp[2] - 1, sp[3], sp[4], attrs]
            elif what == "swap":
                if sp[3] == sp[4]:
                    return None
                new = ["aa", sp[1], sp[2], sp[4], sp[3], attrs]
            else:
                o = [x for x in local if x != sp[3]]
                if not o:
                    return None
                new = ["aa", sp[1], sp[2], pick(o), sp[4], attrs]
        return (k + ":" + what, [{"op": "se", "bi": l, "method": "setitem", "args": [off, new]}], True)
    if k in ("se_del", "se_attr"):
        cands = [(l, off) for l in bis for off in m.nodes[l].a["se"]]
        if not cands:
            return None
        l, off = pick(cands)
        if k == "se_del":
            return (k, [{"op": "se", "bi": l, "method": "delitem", "args": [off]}], True)
        cur = m.nodes[l].a["se"][off][0][-1]
        a = r.choice(V.SE_ATTRS) if r.random() < 0.7 else r.choice(V.SE_UNKNOWN_ATTRS)
        meth = "attr_discard" if a in cur else "attr_add"
        return (k + ":" + meth, [{"op": "se", "bi": l, "method": meth, "args": [off, a]}], True)
    if k == "block_attr":
        l = pick(cbs + dbs)
        n = m.nodes[l]
        attrs = ["offset", "size"] + (["decode_mode"] if n.kind == "cb" else [])
        attr = pick(attrs)
        gen = {"offset": lambda: V.small(r, 14), "size": lambda: V.small(r, 12), "decode_mode": lambda: r.choice(V.DECODE_MODE)}[attr]
        v = different(r, n.a[attr], gen)
        return (k + ":" + attr, setattr_(l, attr, v), True) if v is not None else None
    if k in ("block_kind_swap", "uuid_change"):
        l = pick(cbs + dbs)
        n = m.nodes[l]
        if n.parent is None or _referenced(m, ir, l):
            return None
        nk = ({"cb": "db", "db": "cb"}[n.kind]) if k == "block_kind_swap" else n.kind
        attrs = {"offset": n.a["offset"], "size": n.a["size"]}
        if nk == "cb" and n.kind == "cb":
            attrs["decode_mode"] = n.a["decode_mode"]
        nu = n.uuid if k == "block_kind_swap" else r.getrandbits(128)
        return (k, [
            {"op": "setparent", "child": l, "parent": None},
            {"op": "new", "kind": nk, "label": w.fresh(nk), "uuid": nu, "attrs": attrs, "parent": n.parent},
        ], True)
    if k == "sym_attr":
        l = pick(syms)
        attr = pick(["name", "at_end"])
        cur = m.nodes[l].a[attr]
        v = different(r, cur, (lambda: V.name(r)) if attr == "name" else (lambda: not cur))
        return (k + ":" + attr, setattr_(l, attr, v), True) if v is not None else None
    if k == "sym_payload":
        l = pick(syms)
        cur = m.nodes[l].a["payload"]
        mod = m.ancestor(l, "mod")
        local = [b for b in cbs + dbs + pxs if m.ancestor(b, "mod") == mod]
        opts = [("value", None), ("value", 0), ("value", 1), ("value", V.u64(r))] + [("referent", b) for b in local[:3]]
        attr, v = pick(opts)
        new = None if v is None else (("int", v) if attr == "value" else ("ref", v))
        if new == (tuple(cur) if cur is not None else None):
            return None
        return (k + ":%s" % ("none" if v is None else ("zero" if v == 0 and attr == "value" else attr)), setattr_(l, attr, v), True)
    if k == "child_add":
        # a fresh leaf attached to something in the IR
        kind = pick(["sym", "px", "sec", "bi", "cb", "db", "mod"])
        from .world import PARENT_OF

        pk = PARENT_OF[kind][0]
        ps = [ir] if pk == "ir" else by(pk)
        if not ps:
            return None
        return (k + ":" + kind, [{"op": "new", "kind": kind, "label": w.fresh(kind), "uuid": r.getrandbits(128), "attrs": gen_own.gen_attrs(w, r, kind) if kind not in ("sym",) else {"name": V.name(r)}, "parent": pick(ps)}], True)
    if k in ("child_move", "child_exchange"):
        # the containment tree changes while every node keeps its content: one child moved to
        # a sibling parent, or two children of two parents exchanged (child COUNTS unchanged)
        from .world import PARENT_OF

        groups = {}
        for l in sub:
            n = m.nodes[l]
            if n.parent is not None and n.kind in PARENT_OF and n.kind != "mod":
                groups.setdefault((m.nodes[n.parent].kind, n.kind if n.kind not in ("cb", "db") else "blk"), {}).setdefault(n.parent, []).append(l)
        opts = []
        for (pk, ck), byp in sorted(groups.items()):
            sibs = [x for x in by(pk)]
            if k == "child_move" and len(sibs) >= 2:
                opts.append((pk, ck, byp))
            if k == "child_exchange" and len(byp) >= 2:
                opts.append((pk, ck, byp))
        if not opts:
            return None
        pk, ck, byp = pick(opts)
        if k == "child_move":
            p1 = pick(sorted(byp))
            p2 = pick([x for x in by(pk) if x != p1])
            c1 = pick(byp[p1])
            return (k + ":" + ck, [{"op": "setparent", "child": c1, "parent": p2}], True)
        p1, p2 = r.sample(sorted(byp), 2)
        c1, c2 = pick(byp[p1]), pick(byp[p2])
        return (k + ":" + ck, [{"op": "setparent", "child": c1, "parent": p2}, {"op": "setparent", "child": c2, "parent": p1}], True)
    if k == "child_remove":
        cands = [l for l in sub if l != ir and not _referenced(m, ir, l) and not any(_referenced(m, ir, d) for d in m.subtree(l))]
        if not cands:
            return None
        l = pick(cands)
        return (k + ":" + m.nodes[l].kind, [{"op": "setparent", "child": l, "parent": None}], True)
    if k in ("edge_add", "edge_remove", "edge_label"):
        cfg = sorted(m.nodes[ir].a["cfg"], key=repr)
        nodes = cbs + pxs
        if k == "edge_add":
            if not nodes:
                return None
            e = (pick(nodes), pick(nodes), tuple(gen_misc.gen_label(r) or ()) or None)
            if e in m.nodes[ir].a["cfg"]:
                return None
            return (k, [{"op": "cfg", "ir": ir, "method": "add", "args": [[e[0], e[1], list(e[2]) if e[2] else None]]}], True)
        if not cfg:
            return None
        e = pick(cfg)
        if k == "edge_remove":
            return (k, [{"op": "cfg", "ir": ir, "method": "discard", "args": [[e[0], e[1], list(e[2]) if e[2] else None]]}], True)
        # label None <-> all-false label
        new = ("Branch", False, False) if e[2] is None else None
        if (e[0], e[1], new) in m.nodes[ir].a["cfg"]:
            return None
        return (k + ":none_vs_allfalse", [
            {"op": "cfg", "ir": ir, "method": "discard", "args": [[e[0], e[1], list(e[2]) if e[2] else None]]},
            {"op": "cfg", "ir": ir, "method": "add", "args": [[e[0], e[1], list(new) if new else None]]},
        ], True)
    if k == "edge_reorder":
        # NEUTRAL: the same edge discarded and added again changes only the insertion order of
        # the graph (it matters when parallel edges differ in label). Applied to one replica only.
        cfg = sorted(m.nodes[ir].a["cfg"], key=repr)
        par = [e for e in cfg if sum(1 for f in cfg if f[0] == e[0] and f[1] == e[1]) > 1] or cfg
        if not par:
            return None
        e = pick(par)
        ej = [e[0], e[1], list(e[2]) if e[2] else None]
        return (k, [{"op": "cfg", "ir": ir, "method": "discard", "args": [ej]}, {"op": "cfg", "ir": ir, "method": "add", "args": [ej]}], False, True)
    if k == "edge_add_remove":
        # NEUTRAL: an edge that is not in the set is added and discarded again (the graph may
        # keep its endpoints as isolated vertices; the edge SET is unchanged). One replica only.
        nodes = cbs + pxs
        if not nodes:
            return None
        e = (pick(nodes), pick(nodes), tuple(gen_misc.gen_label(r) or ()) or None)
        if e in m.nodes[ir].a["cfg"]:
            return None
        ej = [e[0], e[1], list(e[2]) if e[2] else None]
        return (k, [{"op": "cfg", "ir": ir, "method": "add", "args": [ej]}, {"op": "cfg", "ir": ir, "method": "discard", "args": [ej]}], False, True)
    if k == "aux_reorder":
        # NEUTRAL: delete and re-create a table under the same key (dict order changes)
        cands = [(c, nme) for c in [ir] + mods for nme, t in m.nodes[c].a["aux"].items() if t["cv"] is not None and not R.has_unknown(R.parse_type(t["type"])) and t["state"] in ("fresh", "assigned")]
        if not cands:
            return None
        c, nme = pick(cands)
        t = m.nodes[c].a["aux"][nme]
        return (k, [{"op": "aux_del", "c": c, "name": nme}, {"op": "aux_new", "c": c, "name": nme, "type": t["type"], "cv": t["cv"]}], False, True)
    if k == "ir_version":
        cur = m.nodes[ir].a["version"]
        return (k, setattr_(ir, "version", 5 if cur == 4 else 4), True)
    return None


def _referenced(m, ir, l):
    """Is l referenced by something attached to ir (so that detaching it
    would leave a dangling reference)?"""
    for x in m.subtree(ir):
        n = m.nodes[x]
        if n.kind == "ir":
            if any(s == l or t == l for s, t, _ in n.a["cfg"]):
                return True
        elif n.kind == "mod" and n.a["entry_point"] == l:
            return True
        elif n.kind == "sym" and n.a["payload"] is not None and n.a["payload"][0] == "ref" and n.a["payload"][1] == l:
            return True
        elif n.kind == "bi":
            for cell in n.a["se"].values():
                s = cell[0]
                if l in ([s[2]] if s[0] == "ac" else [s[3], s[4]]):
                    return True
    return False


@profile
class C18(PersistProfile):
    prop = "C18"
    name = "replica"
    chunk = 10
    runs_quick = 2500
    runs_thorough = 75000
    base = dict(PERSIST_BASE, persist=0.0, peer=0.0, aux=1.5)
    keep = ("new",)
    rule = (
        "one evaluation = two replicas fed the same seeded operation log (same UUIDs), compared with deep_eq in both "
        "directions at IR level and node by node (reflexive, symmetric, true on equal), under set-iteration orders "
        "permuted independently per call; then 6-14 single-field perturbations drawn from the list {each attribute of each "
        "node kind incl. None<->0, child / edge / expression / flag / expression attribute / AuxData key add or remove, label "
        "None vs all-false, block kind swap under one UUID, one UUID changed, IR version} are applied to one replica "
        "(deep_eq must be false both ways), then to the other (true again); an AuxData value change under an unchanged key "
        "must not change the answer. Expected answer = equality of canonical model trees. Non-trivial: >=3 perturbations of "
        ">=3 different kinds judged; distinct by op-kind sequence hash + perturbation kinds."
    )

    def config(self, r):
        c = PersistProfile.config(self, r)
        c["steps"] = r.randrange(30, 70)
        c["boot"] = r.choice([10, 20, 30])
        c["n_perturb"] = r.randrange(6, 15)
        c["max_ir"] = 1
        return c

    def run(self, ctx, seed, run, ops=None, cfg=None):
        res = RunResult()
        res.seed, res.run = seed, run
        rs0 = Streams(seed, run)
        if cfg is None:
            cfg = self.config(rs0.config)
        res.cfg = cfg
        seams = ctx.seams
        worlds = {}
        for name in ("A", "B"):
            seams.bind(Streams(seed, run), cfg.get("order_mode", "sorted"))
            wj = World(ctx.g, seams, Streams(seed, run), dict(cfg), self.prop)
            wj.uuid_rng = seams.uuid_rng
            self.begin(wj)
            worlds[name] = wj
        A, B = worlds["A"], worlds["B"]
        replay = ops is not None
        combined = list(ops) if replay else []
        kinds = []
        pk = []
        cur = {"i": 0}

        def enter(wj, tag):
            seams.uuid_rng = wj.uuid_rng
            seams.order_rng = _rng(seed, run, "order", tag)

        def apply(i, op):
            cur["i"] = i
            if op["op"] == "deq":
                self.deq(ctx, seed, run, i, A, B, op)
                return
            if op["op"] == "deq_pair":
                self.deq_pair(ctx, seed, run, i, A, op)
                return
            targets = [op["world"]] if "world" in op else ["A", "B"]
            o = {k: v for k, v in op.items() if k not in ("world", "pname", "changes")}
            for name in targets:
                wj = worlds[name]
                wj.step = i
                enter(wj, "E%d" % i)
                execute(wj, o)
            if "world" not in op and A.m.state_hash() != B.m.state_hash():
                diff = [l for l in A.m.nodes if l not in B.m.nodes or repr(sorted(A.m.nodes[l].a.items(), key=repr)) != repr(sorted(B.m.nodes[l].a.items(), key=repr)) or A.m.nodes[l].parent != B.m.nodes[l].parent]
                raise Diverged("replicas' models differ after common operation %r: %r" % (op, diff[:3]))

        try:
            try:
                if replay:
                    for i, op in enumerate(combined):
                        kinds.append(op["op"])
                        if op.get("pname"):
                            pk.append(op["pname"])
                        apply(i, op)
                        res.steps += 1
                else:
                    def push(op):
                        i = len(combined)
                        combined.append(op)
                        kinds.append(op["op"])
                        apply(i, op)
                        res.steps += 1

                    step = misses = 0
                    while step < cfg["steps"]:
                        enter(A, "G")
                        A.step = len(combined)
                        with seams.observing():
                            op = PersistProfile.gen(self, A)
                        if op is None:
                            misses += 1
                            if misses > 1000:
                                break
                            continue
                        push(op)
                        step += 1
                    with seams.observing():
                        irs = sorted(A.m.by_kind("ir"), key=lambda l: (-len(A.m.subtree(l)), l))
                    if not irs:
                        raise Diverged("no IR")
                    ir = irs[0]
                    with seams.observing():
                        heal = gen_persist.heal_ops(A, ir)
                    for h in heal:
                        push(h)
                    push({"op": "deq", "ir": ir, "nodes": True})
                    rp = _rng(seed, run, "perturb")
                    done = 0
                    tries = 0
                    while done < cfg["n_perturb"] and tries < cfg["n_perturb"] * 6:
                        tries += 1
                        with seams.observing():
                            # generated against A's model (B's is equal here); labels come from A's counters
                            p = gen_perturbation(A, rp, ir)
                        if p is None:
                            continue
                        pname, pops, changes = p[:3]
                        neutral = len(p) > 3 and p[3]
                        d = [OPS[o["op"]] for o in pops]
                        with seams.observing():
                            if not (labels_exist(A, pops[0], d[0]) and d[0].ready(A, pops[0])):
                                continue
                        first = rp.choice(["B", "A"])
                        second = "A" if first == "B" else "B"
                        for o in pops:
                            push(dict(o, world=first, pname=pname, changes=changes))
                        pk.append(pname)
                        push({"op": "deq", "ir": ir, "nodes": rp.random() < 0.3, "pname": pname})
                        if not neutral:
                            for o in pops:
                                push(dict(o, world=second))
                            push({"op": "deq", "ir": ir, "nodes": rp.random() < 0.15})
                        done += 1
                    # a hand-made copy that SHARES sub-objects with the original (what deep_eq is
                    # documented for: "manually constructed Nodes that may share the same UUID
                    # despite being different objects"): same UUID, same attributes, the very
                    # same expression objects - then one entry moved to another offset
                    with seams.observing():
                        cands = sorted(l for l in A.m.by_kind("bi") if A.m.nodes[l].a["se"] and l in B.m.nodes)
                    if cands and rp.random() < 0.6:
                        X = cands[rp.randrange(len(cands))]
                        with seams.observing():
                            xa = A.m.nodes[X].a
                            C = A.fresh("bi")
                            offs = sorted(xa["se"])
                            new_off = max(offs) + 1 + rp.randrange(3)
                            clone = {"op": "new", "kind": "bi", "label": C, "uuid": A.m.nodes[X].uuid,
                                     "attrs": {"address": xa["address"], "size": xa["size"], "contents": bytes(xa["contents"]).hex()}}
                        push(dict(clone, world="A"))  # replica A only: the pair lives in one world
                        push({"op": "se", "bi": C, "method": "assign", "from": X, "args": [], "world": "A"})
                        push({"op": "deq_pair", "a": X, "b": C})
                        push({"op": "se", "bi": C, "method": "move", "args": [offs[rp.randrange(len(offs))], new_off], "world": "A"})
                        push({"op": "deq_pair", "a": X, "b": C, "pname": "clone_entry_moved"})
                        pk.append("clone_entry_moved")
            except WatchdogTimeout:
                A.violate(("C18",), "timeout", "deep_eq exceeded the CPU-time budget")
        except Violation as v:
            res.violation = {"prop": v.prop, "check": v.check, "detail": v.detail[:2000], "step": cur["i"]}
        except Diverged as d:
            res.aborted = str(d)[:1200]
        except WatchdogTimeout:
            res.aborted = "timeout"
        except Exception:
            res.harness_error = traceback.format_exc()[-3000:]
        finally:
            seams.bind(None, "sorted")
        res.ops = combined
        h = hashlib.sha256()
        from collections import Counter

        tot = Counter()
        for wj in (A, B):
            wj.event({"end": True})
            h.update(wj.log.digest().encode())
            tot.update(wj.counters)
        res.digest = h.hexdigest()
        for p in pk:
            tot["perturb:" + p] += 1
        res.counters = dict(tot)
        kinds_judged = {p.split(":")[0] for p in pk}
        res.nontrivial = len(pk) >= 3 and len(kinds_judged) >= 3
        res.kind_seq_hash = hashlib.sha256(("|".join(kinds) + "#" + "|".join(pk)).encode()).hexdigest()[:16]
        res.state_hash = A.m.state_hash()
        res.tail = list(A.log.tail[-6:])
        seams.iter_calls = seams.permuted_calls = 0
        return res

    def deq(self, ctx, seed, run, i, A, B, op):
        seams = ctx.seams
        ir = op["ir"]
        if ir not in A.objs or ir not in B.objs:
            return
        with seams.observing():
            ua = lambda l: A.m.nodes[l].uuid if l in A.m.nodes else A.label_uuid.get(l)  # noqa
            ub = lambda l: B.m.nodes[l].uuid if l in B.m.nodes else B.label_uuid.get(l)  # noqa
            sc = self_contained_loose(A.m, ir) and self_contained_loose(B.m, ir)
            want = canon_tree(A.m, ir, ua) == canon_tree(B.m, ir, ub)
        if not sc:
            A.counters["probe:deq_skipped_not_self_contained"] += 1
            return
        a, b = A.objs[ir], B.objs[ir]
        self.judge_pair(ctx, seed, run, i, A, a, b, want, "%s (replica A) vs %s (replica B)%s" % (ir, ir, (" after perturbation " + op["pname"]) if op.get("pname") else ""), "ir")
        A.counters["probe:deq_ir_" + ("equal" if want else "different")] += 1
        # reflexive
        for x, nm in ((a, "A"), (b, "B")):
            seams.order_rng = _rng(seed, run, "order", "R%d%s" % (i, nm))
            with A.wd:
                r = capture(lambda: x.deep_eq(x))
            if r.kind != "ok" or r.raw is not True:
                A.violate(("C18",), "deep_eq:not_reflexive", "%s.deep_eq(itself) = %r" % (ir, r.raw if r.kind == "ok" else r.exc))
        if op.get("nodes"):
            # different nodes (other UUID and / or other kind) are never deep_eq, in either direction
            labs = [l for l in A.m.nodes if l in A.objs and l in B.objs]
            rr = _rng(seed, run, "pairs", i)
            for _ in range(min(6, len(labs))):
                l1, l2 = rr.choice(labs), rr.choice(labs)
                if l1 == l2 or A.m.nodes[l1].uuid == B.m.nodes[l2].uuid:
                    continue
                self.judge_pair(ctx, seed, run, i, A, A.objs[l1], B.objs[l2], False, "different nodes %s and %s" % (l1, l2), "cross")
                A.counters["probe:deq_cross_pairs"] += 1
            for l in list(A.m.nodes):
                if l == ir or l not in B.m.nodes or l not in A.objs or l not in B.objs:
                    continue
                if A.m.nodes[l].kind != B.m.nodes[l].kind:
                    continue
                with seams.observing():
                    own_equal = canon_tree(A.m, l, ua) == canon_tree(B.m, l, ub)
                    worlds_equal = want
                exp = True if worlds_equal else (False if not own_equal else None)
                self.judge_pair(ctx, seed, run, i, A, A.objs[l], B.objs[l], exp, "node %s in both replicas" % l, "node")
                A.counters["probe:deq_nodes"] += 1

    def deq_pair(self, ctx, seed, run, i, A, op):
        """Two nodes of ONE world (an original and a hand-made copy sharing sub-objects)."""
        a, b = op["a"], op["b"]
        if a not in A.objs or b not in A.objs:
            return
        with ctx.seams.observing():
            ua = lambda l: A.m.nodes[l].uuid if l in A.m.nodes else A.label_uuid.get(l)  # noqa
            want = canon_tree(A.m, a, ua) == canon_tree(A.m, b, ua)
        self.judge_pair(ctx, seed, run, i, A, A.objs[a], A.objs[b], want, "%s and its hand-made copy %s (sharing the expression objects)%s" % (a, b, " after one entry was moved" if op.get("pname") else ""), "clone")
        A.counters["probe:deq_clone_" + ("equal" if want else "different")] += 1

    def judge_pair(self, ctx, seed, run, i, A, a, b, want, what, level):
        seams = ctx.seams
        seams.order_rng = _rng(seed, run, "order", "D%d/1/%s" % (i, what))
        with A.wd:
            r1 = capture(lambda: a.deep_eq(b))
        seams.order_rng = _rng(seed, run, "order", "D%d/2/%s" % (i, what))
        with A.wd:
            r2 = capture(lambda: b.deep_eq(a))
        for r in (r1, r2):
            if r.kind != "ok":
                A.violate(("C18",), "deep_eq:raises", "%s: %s: %s" % (what, type(r.exc).__name__, r.exc))
            if not isinstance(r.raw, bool):
                A.violate(("C18",), "deep_eq:not_bool", "%s: returned %r" % (what, r.raw))
        if r1.raw != r2.raw:
            A.violate(("C18",), "deep_eq:asymmetric:" + level, "%s: a.deep_eq(b) = %r but b.deep_eq(a) = %r" % (what, r1.raw, r2.raw))
        if want is not None and r1.raw != want:
            A.violate(("C18",), "deep_eq:%s:%s" % ("false_on_equal" if want else "true_on_different", level), "%s: deep_eq = %r, canonical model trees %s" % (what, r1.raw, "equal" if want else "differ"))

    def nontrivial(self, w):
        return True

    def extra_coverage(self, results, tot):
        return {
            "perturbations_judged": {k[8:]: v for k, v in sorted(tot.items()) if k.startswith("perturb:")},
            "deep_eq_calls": {k[6:]: v for k, v in sorted(tot.items()) if k.startswith("probe:deq")},
        }


def self_contained_loose(m, ir):
    """deep_eq follows references; the canonical tree covers them only if
    they stay inside the IR. Version may differ (it is a compared field)."""
    v = m.nodes[ir].a["version"]
    m.nodes[ir].a["version"] = 4
    try:
        return self_contained(m, ir)
    finally:
        m.nodes[ir].a["version"] = v
