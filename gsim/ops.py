"""Operation language: registry, total execution, model side.

An operation is a JSON-able dict {"op": name, ...} that names labels, never
objects. `execute` is total: an operation whose labels are gone or whose model
precondition fails is a recorded skip. That is what makes delta debugging of a
failing run possible.
"""
from .core import Diverged, SimFault, Violation, WatchdogTimeout

OPS = {}


class Out:
    """Outcome of the implementation side of an operation."""

    __slots__ = ("kind", "value", "exc", "raw")

    def __init__(self, kind, value=None, exc=None, raw=None):
        self.kind, self.value, self.exc, self.raw = kind, value, exc, raw

    def canon(self):
        if self.kind == "exc":
            return ["exc", type(self.exc).__name__]
        return [self.kind, self.value]


class Exp:
    """Expectation computed by the model side. kind 'ok' + value, or 'exc' +
    exception class (implementation's exception must be an instance)."""

    __slots__ = ("kind", "value", "exc_cls", "owner", "alts")

    def __init__(self, kind, value=None, exc_cls=None, owner=(), alts=None):
        self.kind, self.value, self.exc_cls, self.owner, self.alts = kind, value, exc_cls, owner, alts


def register(cls):
    inst = cls()
    OPS[cls.name] = inst
    return cls


class Op:
    name = "?"
    family = "?"

    def labels(self, op):
        """[(label, kinds-or-None)] that must exist."""
        return []

    def ready(self, w, op):
        return True

    def run(self, w, op):
        raise NotImplementedError

    def model(self, w, op, out):
        return None

    def touched(self, w, op):
        """Labels the operation names (others must be unaffected)."""
        return [l for l, _ in self.labels(op)]


def capture(fn):
    """Run fn(); classify."""
    try:
        return Out("ok", raw=fn())
    except WatchdogTimeout:
        raise
    except Exception as e:  # noqa
        return Out("exc", exc=e)


def labels_exist(w, op, d):
    for l, kinds in d.labels(op):
        n = w.m.nodes.get(l)
        if n is None or l not in w.objs:
            return False
        if kinds is not None and n.kind not in kinds:
            return False
    return True


def execute(w, op):
    """Execute one operation on implementation and model. Returns the event
    record. Raises Violation / Diverged / WatchdogTimeout."""
    d = OPS.get(op["op"])
    if d is None:
        w.event({"op": op["op"], "skip": "unknown"})
        return None
    if not labels_exist(w, op, d):
        w.event({"op": op["op"], "skip": "labels"})
        w.counters["skip"] += 1
        return None
    with w.seams.observing():
        ok = d.ready(w, op)
    if not ok:
        w.event({"op": op["op"], "skip": "pre"})
        w.counters["skip"] += 1
        return None
    w.counters["op:" + op["op"]] += 1
    w.counters["fam:" + d.family] += 1
    try:
        with w.wd:
            out = d.run(w, op)
    except WatchdogTimeout:
        w.event({"op": op["op"], "out": "timeout"})
        w.violate(getattr(d, "timeout_owner", ()), "timeout:" + op["op"], "operation exceeded %.1fs CPU" % w.wd.seconds)
        raise Diverged("timeout")
    with w.seams.observing():
        rec = {"op": op["op"], "out": out.canon()}
        sub = op.get("method")
        if sub:
            rec["method"] = sub
        w.event(rec)
        try:
            exp = d.model(w, op, out)
            if exp is not None:
                if exp.kind == "exc":
                    w.counters["fault:" + ("iterable_fails_midway" if exp.exc_cls.__name__ == "SimFault" else "call_that_must_fail")] += 1
                msg = mismatch(out, exp)
                if msg:
                    w.violate(exp.owner, "refine:%s%s" % (op["op"], (":" + sub) if sub else ""), msg + " op=%r" % (op,))
        except Diverged as dv:
            # Not the business of the property under check. The run is cut
            # short, but only AFTER that property's own live-structure scans
            # had their look at this state (the reference model may be out of
            # step now, so model-based oracles are skipped).
            w.deferred = dv
    return out


def mismatch(out, exp):
    if exp.kind == "exc":
        if out.kind != "exc":
            return "expected %s, got result %r" % (exp.exc_cls.__name__, out.value)
        if not isinstance(out.exc, exp.exc_cls):
            return "expected %s, got %s: %s" % (exp.exc_cls.__name__, type(out.exc).__name__, out.exc)
        return None
    if exp.kind == "any":
        return None
    if out.kind == "exc":
        return "unexpected %s: %s" % (type(out.exc).__name__, out.exc)
    if exp.alts is not None:
        if out.value in exp.alts:
            return None
        return "result %r not among %r" % (out.value, exp.alts)
    if out.value != exp.value:
        return "result %r, expected %r" % (out.value, exp.value)
    return None


def execute_strict(w, op):
    """execute(), and cut the run at once on a divergence that is not the
    business of the property under check (profiles with their own run loop)."""
    out = execute(w, op)
    if w.deferred is not None:
        raise w.deferred
    return out
