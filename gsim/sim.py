"""One simulated run: config draw, op generation (or replay of a recorded op
list), execution, per-step oracles, verdict. Pure function of (profile, seed,
run[, ops, cfg]) and the code under test.
"""
import hashlib
import json
import traceback

from .core import Diverged, EndOfDomain, Streams, Violation, WatchdogTimeout
from .ops import OPS, execute
from .world import World


def resync_ownership(w):
    """Model parent pointers and module lists := what the live collections show. False if
    the live structure holds objects the harness has no label for."""
    from .world import FIELDS

    m = w.m
    with w.seams.observing():
        for l, n in m.nodes.items():
            if n.kind != "ir":
                n.parent = None
        for pl, pn in list(m.nodes.items()):
            P = w.objs.get(pl)
            if P is None or pn.kind not in FIELDS:
                continue
            for field in FIELDS[pn.kind]:
                labels = []
                for c in getattr(P, field):
                    cl = w.lab.get(id(c))
                    if cl is None or cl not in m.nodes:
                        return False
                    labels.append(cl)
                    m.nodes[cl].parent = pl
                if pn.kind == "ir":
                    pn.a["modules"] = labels
    return True


class RunResult:
    def __init__(self):
        self.seed = self.run = None
        self.digest = None
        self.steps = 0
        self.ops = []
        self.cfg = None
        self.violation = None  # dict(prop, check, detail, step)
        self.aborted = None  # reason string
        self.harness_error = None
        self.counters = {}
        self.nontrivial = False
        self.kind_seq_hash = None
        self.state_hash = None
        self.sample = None

    def to_dict(self):
        return self.__dict__


def run_one(ctx, profile, seed, run, ops=None, cfg=None, keep_ops=True):
    """ctx: object with .g (built gtirb module) and .seams."""
    res = RunResult()
    res.seed, res.run = seed, run
    rs = Streams(seed, run)
    if cfg is None:
        cfg = profile.config(rs.config)
        if cfg.get("deep"):
            # thorough tier: 40 % of the runs are three times as long (later generations,
            # fuller worlds, longer schedules)
            cfg["steps"] = cfg["steps"] * 3
    res.cfg = cfg
    ctx.seams.bind(rs, cfg.get("order_mode", "sorted"))
    w = World(ctx.g, ctx.seams, rs, cfg, profile.prop)
    profile.begin(w)
    replay = ops is not None
    nsteps = len(ops) if replay else cfg["steps"]
    kinds = []
    try:
        try:
            step = 0
            misses = 0
            while step < nsteps:
                w.step = step
                if replay:
                    op = ops[step]
                else:
                    op = profile.gen(w)
                    if op is None:
                        misses += 1
                        if misses > 50 * (nsteps + 1):
                            break
                        continue
                    res.ops.append(op)
                kinds.append(op["op"] + ":" + str(op.get("method", op.get("attr", ""))))
                out = execute(w, op)
                with ctx.seams.observing():
                    profile.after(w, op, out)
                if w.deferred is not None:
                    # Scan-based checks go on after re-deriving the model's ownership from the
                    # live structure: a defect that belongs to another property (e.g. a module
                    # listed twice) may be the first step of a history that breaks this one.
                    if getattr(profile, "resync_on_divergence", False) and resync_ownership(w):
                        w.counters["probe:resynced_after_foreign_divergence"] += 1
                        w.deferred = None
                    else:
                        raise w.deferred
                res.steps += 1
                step += 1
            with ctx.seams.observing():
                profile.finish(w)
        except WatchdogTimeout:
            w.violate(profile.timeout_owner, "timeout", "watchdog fired outside an operation")
    except Violation as v:
        res.violation = {"prop": v.prop, "check": v.check, "detail": v.detail[:2000], "step": w.step}
    except Diverged as d:
        res.aborted = str(d)[:300]
    except EndOfDomain:
        w.counters["probe:run_ended_outside_domain"] += 1
    except WatchdogTimeout:
        res.aborted = "timeout"
    except Exception:
        res.harness_error = traceback.format_exc()[-3000:]
    finally:
        _branch = dict(getattr(ctx.seams, "branch", {}))
        _bseq = "".join(getattr(ctx.seams, "branch_seq", []))
        ctx.seams.bind(None, "sorted")
        ctx.seams.branch = _branch
        res.branch_seq = _bseq
        _rd = getattr(w, "realdir", None)
        if _rd:
            import shutil

            shutil.rmtree(_rd, ignore_errors=True)
    if replay:
        res.ops = list(ops)
    w.event({"end": True, "violation": res.violation and [res.violation["prop"], res.violation["check"], res.violation["step"]], "aborted": bool(res.aborted)})
    res.digest = w.log.digest()
    res.counters = dict(w.counters)
    res.counters["seam:iter_calls"] = ctx.seams.iter_calls
    res.counters["seam:permuted"] = ctx.seams.permuted_calls
    ctx.seams.iter_calls = ctx.seams.permuted_calls = 0
    for b, c in getattr(ctx.seams, "branch", {}).items():
        res.counters["branch:" + b] = c
    try:
        with ctx.seams.observing():
            res.nontrivial = bool(profile.nontrivial(w))
    except Exception:
        res.nontrivial = False
    res.kind_seq_hash = hashlib.sha256("|".join(kinds).encode()).hexdigest()[:16]
    res.state_hash = w.m.state_hash()
    res.tail = list(w.log.tail[-8:])
    res.extras = getattr(w, "extras", None)
    return res


def ddmin(test, items, budget=400):
    """Classic delta debugging on a list; `test(sub)` is True when the same
    failure persists."""
    n = 2
    calls = 0
    while len(items) >= 2 and calls < budget:
        chunk = max(1, len(items) // n)
        subsets = [items[i : i + chunk] for i in range(0, len(items), chunk)]
        reduced = False
        for i in range(len(subsets)):
            comp = [x for j, s in enumerate(subsets) if j != i for x in s]
            calls += 1
            if test(comp):
                items = comp
                n = max(n - 1, 2)
                reduced = True
                break
            if calls >= budget:
                break
        if not reduced:
            if n >= len(items):
                break
            n = min(len(items), n * 2)
    # final single-op pass
    i = 0
    while i < len(items) and calls < budget * 2:
        comp = items[:i] + items[i + 1 :]
        calls += 1
        if comp and test(comp) or (not comp and False):
            items = comp
        else:
            i += 1
    return items


def shrink(ctx, profile, seed, run, cfg, ops, violation):
    """Minimise the op list while the same check of the same property fires."""
    key = (violation["prop"], violation["check"])

    def test(sub):
        r = profile.run(ctx, seed, run, ops=sub, cfg=cfg)
        return r.violation is not None and (r.violation["prop"], r.violation["check"]) == key

    # cut everything after the failing step first
    ops = ops[: violation["step"] + 1]
    if not test(ops):
        return None
    ops = ddmin(test, ops)
    ops = profile.simplify(ops, test)
    final = profile.run(ctx, seed, run, ops=ops, cfg=cfg)
    return final
