"""Entry point: keeps gsim.runner a single module instance (running runner.py
as a script would load it twice: as __main__ and as gsim.runner)."""
import os
import sys

sys.path.insert(0, os.path.dirname(os.path.dirname(os.path.abspath(__file__))))
from gsim import runner  # noqa: E402

if __name__ == "__main__":
    sys.exit(runner.main())
