"""The simulated world: live gtirb objects addressed by labels, and the
deliberately trivial reference model (one parent pointer per node, an ordered
module list per IR, plain dict/set/bytearray for the rest).
"""
import copy
import uuid as _uuid
from collections import Counter

from .core import Diverged, EventLog, SimDisk, Violation, Watchdog

import os as _os

LOG_STATE = bool(_os.environ.get("GSIM_LOG_STATE"))  # determinism self-test: hash of the whole model in every event
KINDS = ("ir", "mod", "sec", "bi", "cb", "db", "px", "sym")
# child kind -> (parent kind, parent collection field, child attribute naming the parent)
PARENT_OF = {
    "mod": ("ir", "modules", "ir"),
    "sec": ("mod", "sections", "module"),
    "sym": ("mod", "symbols", "module"),
    "px": ("mod", "proxies", "module"),
    "bi": ("sec", "byte_intervals", "section"),
    "cb": ("bi", "blocks", "byte_interval"),
    "db": ("bi", "blocks", "byte_interval"),
}
# parent kind -> {field: child kinds}
FIELDS = {
    "ir": {"modules": ("mod",)},
    "mod": {"sections": ("sec",), "symbols": ("sym",), "proxies": ("px",)},
    "sec": {"byte_intervals": ("bi",)},
    "bi": {"blocks": ("cb", "db")},
}
SET_FIELDS = [
    ("mod", "sections"),
    ("mod", "symbols"),
    ("mod", "proxies"),
    ("sec", "byte_intervals"),
    ("bi", "blocks"),
]
CTOR_PARENT_KW = {
    "mod": "ir",
    "sec": "module",
    "sym": "module",
    "px": "module",
    "bi": "section",
    "cb": "byte_interval",
    "db": "byte_interval",
}


def field_of(kind):
    return PARENT_OF[kind][1]


class MNode:
    __slots__ = ("label", "kind", "uuid", "parent", "a")

    def __init__(self, label, kind, uuid, parent=None, a=None):
        self.label, self.kind, self.uuid, self.parent = label, kind, uuid, parent
        self.a = a if a is not None else {}

    def clone(self):
        a = copy.deepcopy(self.a)
        if isinstance(a.get("aux"), dict):
            # a durable copy: one AuxData object listed under two names is two tables in a file
            a["aux"] = {k: copy.deepcopy(v) for k, v in self.a["aux"].items()}
        if isinstance(a.get("se"), dict):
            # likewise one expression object stored at two offsets
            a["se"] = {k: copy.deepcopy(v) for k, v in self.a["se"].items()}
        return MNode(self.label, self.kind, self.uuid, self.parent, a)


class Model:
    def __init__(self):
        self.nodes = {}  # label -> MNode (insertion ordered)

    # --- scans -------------------------------------------------------
    def by_kind(self, *kinds):
        return [n.label for n in self.nodes.values() if n.kind in kinds]

    def kids(self, plabel, field=None):
        """Labels of the children of plabel (in `field`, or all). IR modules
        in list order, others in label-creation order."""
        p = self.nodes[plabel]
        if p.kind == "ir":
            return list(p.a["modules"])
        out = []
        kinds = None
        if field is not None:
            kinds = FIELDS[p.kind][field]
        for n in self.nodes.values():
            if n.parent == plabel and (kinds is None or n.kind in kinds):
                out.append(n.label)
        return out

    def subtree(self, label):
        out = [label]
        n = self.nodes[label]
        if n.kind in FIELDS:
            for k in self.kids(label):
                out.extend(self.subtree(k))
        return out

    def root(self, label):
        n = self.nodes[label]
        while n.parent is not None:
            n = self.nodes[n.parent]
        return n.label

    def ir_of(self, label):
        r = self.root(label)
        return r if self.nodes[r].kind == "ir" else None

    def ancestor(self, label, kind):
        n = self.nodes[label]
        while n is not None:
            if n.kind == kind:
                return n.label
            n = self.nodes[n.parent] if n.parent is not None else None
        return None

    def set_parent(self, child, parent):
        """Model move: one parent pointer; IR module lists kept in step (a
        module entering a list through this path is appended)."""
        c = self.nodes[child]
        if c.kind == "mod":
            if c.parent is not None:
                lst = self.nodes[c.parent].a["modules"]
                while child in lst:
                    lst.remove(child)
            c.parent = parent
            if parent is not None:
                self.nodes[parent].a["modules"].append(child)
        else:
            c.parent = parent

    def uuids(self, labels):
        return {self.nodes[l].uuid for l in labels}

    def attach_collides(self, child, parent):
        """Would attaching subtree(child) under parent put two nodes with one
        UUID into one IR?"""
        if parent is None:
            return False
        ir = self.ir_of(parent) if self.nodes[parent].kind != "ir" else parent
        if ir is None:
            return False
        sub = set(self.subtree(child))
        mine = self.uuids(sub)
        if len(mine) != len(sub):
            return True
        others = [l for l in self.subtree(ir) if l not in sub]
        return bool(mine & self.uuids(others))

    def clone_subset(self, labels):
        return {l: self.nodes[l].clone() for l in labels}

    def state_hash(self):
        import hashlib

        h = hashlib.sha256()
        for n in self.nodes.values():
            h.update(repr((n.label, n.kind, n.parent, _canon(n.a))).encode())
        return h.hexdigest()[:16]


def _canon(v):
    """Canonical, hash-seed independent rendering of model values."""
    if isinstance(v, dict):
        # "raw" (bytes gtirb wrote for a table) is excluded: the element order of sets / mappings
        # on the wire follows Python hashing (str hashing, object addresses) and is unspecified
        return [[_canon(k), _canon(x)] for k, x in sorted(v.items(), key=lambda kv: repr(_canon(kv[0]))) if k != "raw"]
    if isinstance(v, (set, frozenset)):
        return sorted((_canon(x) for x in v), key=repr)
    if isinstance(v, (list, tuple)):
        return [_canon(x) for x in v]
    if isinstance(v, (bytes, bytearray)):
        return bytes(v).hex()
    return v


class World:
    def __init__(self, g, seams, streams, cfg, prop):
        self.g = g
        self.seams = seams
        self.rs = streams
        self.cfg = cfg
        self.prop = prop  # property under check: only its oracles may raise Violation
        self.m = Model()
        self.objs = {}  # label -> live object
        self.lab = {}  # id(obj) -> label
        self.disk = SimDisk()
        self.log = EventLog()
        self.step = 0
        self.counters = Counter()
        self.wd = Watchdog(cfg.get("watchdog_s", 5.0))
        self.seen_uuids = {}  # uuid int -> None  (every UUID the world has ever seen)
        self.next_id = Counter()
        self.snapshots = {}  # path -> snapshot dict
        self.saved_as = {}  # ir label -> path of latest save
        self.kind_cls = {
            "ir": g.IR,
            "mod": g.Module,
            "sec": g.Section,
            "bi": g.ByteInterval,
            "cb": g.CodeBlock,
            "db": g.DataBlock,
            "px": g.ProxyBlock,
            "sym": g.Symbol,
        }
        self.dropped = []  # keeps dropped objects alive so id() is never reused within a run
        self.label_uuid = {}  # label -> uuid int, for every label ever registered
        self.last_loaded = None
        self.deferred = None  # a pending Diverged (see ops.execute)
        self.shared_bytes = {}  # key -> bytearray owned by the caller (harness), passed to constructors
        self.aux_refs = {}  # id(model table) -> (model table, value object handed out by the last read)
        self.immutable_contents = set()  # intervals whose contents the caller replaced by an immutable bytes object
        self.queue = []  # operations scheduled by the generator (e.g. heal before save)

    # --- labels --------------------------------------------------------
    def fresh(self, kind):
        self.next_id[kind] += 1
        return "%s%d" % (kind, self.next_id[kind])

    def register(self, label, obj, mnode):
        self.objs[label] = obj
        self.lab[id(obj)] = label
        self.m.nodes[label] = mnode
        self.seen_uuids[mnode.uuid] = None
        self.label_uuid[label] = mnode.uuid

    def L(self, obj):
        """Label of a live object ('?Type' if the harness has never seen it)."""
        if obj is None:
            return None
        return self.lab.get(id(obj), "?" + type(obj).__name__)

    def Ls(self, objs):
        return sorted(self.L(o) for o in objs)

    def kind_of_obj(self, obj):
        g = self.g
        for k, c in self.kind_cls.items():
            if isinstance(obj, c):
                return k
        return None

    def drop_all(self):
        self.dropped.extend(self.objs.values())
        self.objs.clear()
        self.lab.clear()
        self.m.nodes.clear()
        self.immutable_contents.clear()
        self.aux_refs.clear()

    def drop(self, labels):
        for l in labels:
            o = self.objs.pop(l, None)
            if o is not None:
                self.dropped.append(o)
                self.lab.pop(id(o), None)
            self.m.nodes.pop(l, None)

    # --- live-structure scans (public API only) --------------------------
    def live_kids(self, obj, field):
        return list(getattr(obj, field))

    def live_walk(self, ir_obj):
        """All nodes reachable from ir_obj through containment, as a list
        (duplicates preserved)."""
        out = [ir_obj]
        for m in ir_obj.modules:
            out.append(m)
            for f in ("proxies", "symbols"):
                out.extend(getattr(m, f))
            for s in m.sections:
                out.append(s)
                for bi in s.byte_intervals:
                    out.append(bi)
                    out.extend(bi.blocks)
        return out

    # --- verdict helpers ---------------------------------------------------
    def violate(self, owners, check, detail):
        """Raise a Violation if the property under check is among `owners`
        (the properties this oracle speaks for); otherwise the divergence is
        not ours to judge: cut the run (Diverged)."""
        if isinstance(owners, str):
            owners = (owners,)
        mine = (self.prop,) if isinstance(self.prop, str) else tuple(self.prop or ())
        for p in mine:
            if p in owners:
                raise Violation(p, check, detail)
        raise Diverged("%s/%s: %s" % ("|".join(owners), check, detail))

    def owns(self, owners):
        """Is the property under check among `owners`? Pure oracles (which do
        not keep the model in step) of other properties are skipped rather
        than allowed to cut the run."""
        if isinstance(owners, str):
            owners = (owners,)
        mine = (self.prop,) if isinstance(self.prop, str) else tuple(self.prop or ())
        return any(p in owners for p in mine)

    def event(self, rec):
        rec["step"] = self.step
        if LOG_STATE:
            rec["model"] = self.m.state_hash()
        self.log.add(rec)


def fmt_uuid(u):
    return "%032x" % u


def mk_uuid(u):
    return _uuid.UUID(int=u)
