"""Generators for the lookup task and for symbolic-expression mapping ops.
Read the model only."""
from . import values as V
from .gen_own import pick
from .ops_index import METHODS, PROP_OF

STEPS = [1, 1, 1, 2, 3, 7, 2**40]


def _intervals_under(m, scope):
    k = m.nodes[scope].kind
    if k == "bi":
        return [scope]
    return [l for l in m.subtree(scope) if m.nodes[l].kind == "bi"]


def coords(w, r, scope, by_offset):
    """Interesting coordinates derived from the model state of the scope."""
    m = w.m
    cs = [0, 1, V.U64, V.U64 + 1]
    for bl in _intervals_under(m, scope):
        b = m.nodes[bl]
        A = 0 if by_offset else b.a["address"]
        if A is None:
            continue
        cs += [A, A + b.a["size"]]
        for kl in m.kids(bl, "blocks"):
            k = m.nodes[kl]
            cs += [A + k.a["offset"], A + k.a["offset"] + k.a["size"]]
        for off in b.a["se"]:
            cs.append(A + off)
    c = pick(r, cs)
    x = r.random()
    if x < 0.5:
        return c
    if x < 0.8:
        return c + r.choice([-1, 1])
    if x < 0.9:
        return c + r.choice([-2, 2, 3])
    return V.small(r, 60)


def gen_query(w, r, scope, by_offset):
    x = r.random()
    a = coords(w, r, scope, by_offset)
    if x < 0.4:
        return a
    b = coords(w, r, scope, by_offset)
    step = r.choice(STEPS)
    y = r.random()
    if y < 0.08:
        return [a, a, step]  # empty
    if y < 0.16:
        return [max(a, b), min(a, b), step]  # start >= stop
    lo, hi = min(a, b), max(a, b)
    if y < 0.5:
        hi += r.choice([0, 1, 1, 2, 5])
    return [lo, hi, step]


def gen_lookup(w, r, props=("C05", "C06", "C13"), scopes=("bi", "sec", "mod", "ir")):
    m = w.m
    cands = [l for l, n in m.nodes.items() if n.kind in scopes]
    s = pick(r, cands)
    if s is None:
        return None
    k = m.nodes[s].kind
    ms = [x for x in METHODS[k] if PROP_OF[x] in props]
    if not ms:
        return None
    meth = r.choice(ms)
    op = {"op": "lookup", "scope": s, "method": meth}
    if meth in ("address", "size"):
        op["q"] = None
    else:
        op["q"] = gen_query(w, r, s, meth.endswith("_offset"))
    return op


def gen_spec(w, r, bi=None):
    from .gen_own import local_pool

    syms = local_pool(w, r, bi, ("sym",))
    if not syms:
        return None
    k = r.randrange(0, 3)
    attrs = []
    for _ in range(r.choice([0, 0, 1, 2])):
        attrs.append(r.choice(V.SE_ATTRS) if r.random() < 0.8 else r.choice(V.SE_UNKNOWN_ATTRS))
    attrs = sorted(set(attrs), key=repr)
    if r.random() < 0.6:
        return ["ac", V.i64(r), pick(r, syms), attrs]
    return ["aa", 0 if r.random() < 0.15 else V.i64(r), V.i64(r), pick(r, syms), pick(r, syms), attrs]


def gen_off(w, r, bi):
    n = w.m.nodes[bi]
    keys = sorted(n.a["se"])
    x = r.random()
    A = n.a["address"]
    if A is not None and x < 0.25:
        # land on an ADDRESS where another interval already has an expression (overlapping
        # intervals in different sections / modules)
        tgt = []
        for ol, on in w.m.nodes.items():
            if on.kind == "bi" and ol != bi and on.a["address"] is not None:
                tgt += [on.a["address"] + o for o in on.a["se"] if on.a["address"] + o - A >= 0]
        inside = [t for t in tgt if t - A < n.a["size"]]
        if inside:
            return pick(r, sorted(inside)) - A
        if tgt and r.random() < 0.3:
            return pick(r, sorted(tgt)) - A
    if x < 0.4 and keys:
        return pick(r, keys)
    if x < 0.7 and n.a["size"] > 0:
        return r.randrange(0, min(n.a["size"], 2**32))  # inside the declared extent
    if x < 0.9:
        return V.small(r, max(4, min(20, n.a["size"] + 3)))
    return V.u64(r, 1.0)


def gen_se(w, r, pure=False):
    m = w.m
    bis = m.by_kind("bi")
    bi = pick(r, bis)
    if bi is None:
        return None
    if pure:
        meth = r.choice(["getitem", "get", "contains", "len", "iter", "keys", "values", "items", "eq"])
    else:
        meth = r.choices(
            ["setitem", "delitem", "pop", "popitem", "setdefault", "update", "clear", "assign", "attr_add", "attr_discard"],
            weights=[8, 2, 2, 1, 2, 3, 0.5, 1, 1, 0.5],
        )[0]
    op = {"op": "se", "bi": bi, "method": meth}
    if meth in ("setitem", "setdefault"):
        s = gen_spec(w, r, bi)
        if s is None:
            return None
        op["args"] = [gen_off(w, r, bi), s]
        if r.random() < w.cfg.get("p_se_junk_key", 0.0):
            # a key that is no offset and cannot be ordered against the offsets present
            op["args"][0] = r.choice(["4", None, "x"])
            op["junk_key"] = True
    elif meth in ("delitem", "getitem", "get", "contains"):
        op["args"] = [gen_off(w, r, bi)]
    elif meth == "pop":
        op["args"] = [gen_off(w, r, bi)]
        if r.random() < 0.4:
            op["args"].append(r.choice([None, 7]))
    elif meth in ("update", "assign"):
        if meth == "assign" and r.random() < 0.2 and len(bis) > 1:
            op["from"] = pick(r, [b for b in bis if b != bi])
            op["args"] = []
            return op
        pairs = []
        for _ in range(r.randrange(0, 4)):
            s = gen_spec(w, r, bi)
            if s is None:
                break
            pairs.append([gen_off(w, r, bi), s])
        # a dict argument cannot repeat keys
        seen, uniq = set(), []
        for k, s in pairs:
            if k not in seen:
                seen.add(k)
                uniq.append([k, s])
        op["args"] = [uniq]
        op["style"] = r.choice(["dict", "pairs", "iter"])
    elif meth in ("attr_add", "attr_discard"):
        keys = sorted(m.nodes[bi].a["se"])
        if not keys:
            return None
        a = r.choice(V.SE_ATTRS) if r.random() < 0.8 else r.choice(V.SE_UNKNOWN_ATTRS)
        op["args"] = [pick(r, keys), a]
    else:
        op["args"] = []
    return op
