"""Ownership operations: construction, parent assignment from the child end,
set/list operations from the parent end, attribute edits.

Model side = Python built-ins on labels + "a node inserted while owned
elsewhere is moved".
"""
from .core import EndOfDomain, SimFault
from .ops import Exp, Op, Out, capture, register
from .world import CTOR_PARENT_KW, FIELDS, PARENT_OF, MNode, field_of

OWN = ("C04", "C16")

# ---------------------------------------------------------------------------
# value conversion model -> implementation


def enum_of(w, kind, attr, name):
    g = w.g
    if attr == "isa":
        return g.Module.ISA[name]
    if attr == "file_format":
        return g.Module.FileFormat[name]
    if attr == "byte_order":
        return g.Module.ByteOrder[name]
    if attr == "decode_mode":
        return g.CodeBlock.DecodeMode[name]
    raise KeyError(attr)


def to_impl(w, kind, attr, v):
    if attr in ("isa", "file_format", "byte_order", "decode_mode"):
        return enum_of(w, kind, attr, v)
    if attr == "flags":
        return set(w.g.Section.Flag[f] for f in v)
    if attr in ("entry_point", "referent"):
        return w.objs[v] if v is not None else None
    if attr == "contents":
        return bytes.fromhex(v)
    return v


DEFAULTS = {
    "ir": lambda: {"version": 4, "modules": [], "cfg": set(), "aux": {}},
    "mod": lambda: {
        "name": "",
        "binary_path": "",
        "isa": "Undefined",
        "file_format": "Undefined",
        "byte_order": "Undefined",
        "preferred_addr": 0,
        "rebase_delta": 0,
        "entry_point": None,
        "aux": {},
    },
    "sec": lambda: {"name": "", "flags": set()},
    "bi": lambda: {"address": None, "size": 0, "contents": bytearray(), "se": {}},
    "cb": lambda: {"offset": 0, "size": 0, "decode_mode": "Default"},
    "db": lambda: {"offset": 0, "size": 0},
    "px": lambda: {},
    "sym": lambda: {"name": "", "at_end": False, "payload": None},
}


def collides(w, children, parent):
    """Would attaching the subtrees of `children` under `parent` put two nodes
    with one UUID into one IR (or is the combined subtree itself ambiguous)?"""
    m = w.m
    if parent is None:
        return False
    ir = parent if m.nodes[parent].kind == "ir" else m.ir_of(parent)
    sub = []
    for c in children:
        sub.extend(m.subtree(c))
    subset = set(sub)
    uu = [m.nodes[l].uuid for l in subset]
    if ir is None:
        # no IR above: the tree the children would join must still name each node uniquely
        # (one UUID = one node is the premise of every statement; with two siblings under one
        # UUID not even "sort the children by UUID" is an order - found by a soak at seed 91
        # once nil UUIDs were drawn on purpose)
        root = parent
        while m.nodes[root].parent is not None:
            root = m.nodes[root].parent
        ir = root
    if len(set(uu)) != len(uu):
        return True
    others = [l for l in m.subtree(ir) if l not in subset]
    return bool(set(uu) & m.uuids(others))


def is_ancestor(m, a, b):
    """a is b or an ancestor of b."""
    n = m.nodes.get(b)
    while n is not None:
        if n.label == a:
            return True
        n = m.nodes.get(n.parent) if n.parent is not None else None
    return False


# ---------------------------------------------------------------------------


@register
class New(Op):
    name = "new"
    family = "construct"

    def labels(self, op):
        out = []
        if op.get("parent"):
            out.append((op["parent"], (PARENT_OF[op["kind"]][0],)))
        for f, ls in (op.get("kids") or {}).items():
            for l in ls:
                out.append((l, FIELDS[op["kind"]][f]))
        for f, q in (op.get("kids_from") or {}).items():
            out.append((q, (op["kind"],)))
        a = op.get("attrs") or {}
        if a.get("entry_point"):
            out.append((a["entry_point"], ("cb",)))
        p = a.get("payload")
        if p and p[0] == "ref":
            out.append((p[1], ("cb", "db", "px")))
        return out

    def touched(self, w, op):
        t = [op["label"]]
        if op.get("parent"):
            t.append(op["parent"])
        for f, ls in (op.get("kids") or {}).items():
            for l in ls:
                t.append(l)
                n = w.m.nodes.get(l)
                if n is not None and n.parent:
                    t.append(n.parent)
        for f, q in (op.get("kids_from") or {}).items():
            t.append(q)
        if op["label"] in w.m.nodes:
            t.extend(w.m.kids(op["label"]))
        return t

    def _all_kids(self, w, op):
        """{field: [labels]} including everything owned by a collection passed whole."""
        out = {f: list(ls) for f, ls in (op.get("kids") or {}).items()}
        for f, q in (op.get("kids_from") or {}).items():
            out.setdefault(f, [])
            out[f] += [l for l in w.m.kids(q, f) if l not in out[f]]
        return out

    def ready(self, w, op):
        if op["label"] in w.m.nodes:
            return False
        if op.get("kids_from") and op.get("kids") and set(op["kids_from"]) & set(op["kids"]):
            return False
        kids = [l for ls in self._all_kids(w, op).values() for l in ls]
        if len(set(kids)) != len(kids):
            return False
        par = op.get("parent")
        if par is not None:
            for k in kids:
                if is_ancestor(w.m, k, par):
                    return False
        # UUID-collision precondition (C03 statement): evaluate on the model.
        u = op.get("uuid")
        m = w.m
        if kids or par:
            # the new node's own uuid joins the subtree
            ir = None
            if par is not None:
                ir = par if m.nodes[par].kind == "ir" else m.ir_of(par)
                if ir is None:
                    # no IR above: uniqueness within the detached tree the node joins (see collides)
                    ir = par
                    while m.nodes[ir].parent is not None:
                        ir = m.nodes[ir].parent
            sub = set()
            for k in kids:
                sub.update(m.subtree(k))
            uu = [m.nodes[l].uuid for l in sub]
            if u is not None:
                uu.append(u)
            if len(set(uu)) != len(uu):
                return False
            if ir is not None:
                others = [l for l in m.subtree(ir) if l not in sub]
                if set(uu) & m.uuids(others):
                    return False
        return True

    def run(self, w, op):
        g = w.g
        kind = op["kind"]
        a = dict(op.get("attrs") or {})
        kw = {}
        for k, v in a.items():
            if k == "payload":
                if v is None:
                    kw["payload"] = None
                elif v[0] == "int":
                    kw["payload"] = v[1]
                else:
                    kw["payload"] = w.objs[v[1]]
            else:
                kw[k] = to_impl(w, kind, k, v)
        if kind == "bi" and op.get("shared") is not None and "contents" in kw:
            # the caller's OWN bytearray, handed to several constructors and edited by the
            # caller afterwards (constructors copy their arguments)
            buf = w.shared_bytes.get(op["shared"])
            if buf is None or bytes(buf) != kw["contents"]:
                buf = w.shared_bytes[op["shared"]] = bytearray(kw["contents"])
            kw["contents"] = buf
        if op.get("uuid") is not None:
            import uuid as _u

            kw["uuid"] = _u.UUID(int=op["uuid"])
        if op.get("parent"):
            kw[CTOR_PARENT_KW[kind]] = w.objs[op["parent"]]
        for f, ls in (op.get("kids") or {}).items():
            objs = [w.objs[l] for l in ls]
            style = op.get("kids_style", "list")
            kw[f] = iter(objs) if style == "iter" else (tuple(objs) if style == "tuple" else objs)
        for f, q in (op.get("kids_from") or {}).items():
            kw[f] = getattr(w.objs[q], f)  # the other owner's collection itself
            lz = op.get("kids_from_lazy")
            if lz == "iter":
                kw[f] = iter(kw[f])
            elif lz == "gen":
                kw[f] = (x for x in kw[f])
        cls = w.kind_cls[kind]
        if op.get("subclass"):
            # an instance of a trivial USER subclass: still a CodeBlock / Section / ... for every
            # purpose of the API (isinstance), whatever type(x) says
            nm = "User" + cls.__name__
            sub = globals().get(nm)
            if sub is None or sub.__mro__[1] is not cls:
                # a module-level class, so that pickle can find it again
                sub = type(nm, (cls,), {"__module__": __name__, "__qualname__": nm})
                globals()[nm] = sub
            cls = sub
            w.counters["probe:user_subclass_instances"] += 1
        out = capture(lambda: cls(**kw))
        if out.kind == "ok":
            out.value = "created"
        return out

    def model(self, w, op, out):
        kind = op["kind"]
        a = DEFAULTS[kind]()
        for k, v in (op.get("attrs") or {}).items():
            if k == "flags":
                a["flags"] = set(v)
            elif k == "contents":
                a["contents"] = bytearray(bytes.fromhex(v))
            elif k == "payload":
                a["payload"] = tuple(v) if v is not None else None
            elif k == "initialized_size":
                pass
            else:
                a[k] = v
        if kind == "bi":
            attrs = op.get("attrs") or {}
            if "size" not in attrs:
                a["size"] = len(a["contents"])
            isz = attrs.get("initialized_size")
            if isz is None:
                isz = len(a["contents"])
            if isz > a["size"]:
                return Exp("exc", exc_cls=Exception, owner=("C19",))  # "reject": the statement names no exception class
            c = a["contents"]
            if isz > len(c):
                c.extend(b"\0" * (isz - len(c)))
            elif isz < len(c):
                del c[isz:]
        if out.kind != "ok":
            # construction failed unexpectedly: nothing registered; let the
            # caller decide who owns this
            return Exp("ok", value="created", owner=OWN)
        obj = out.raw
        label = op["label"]
        allk = self._all_kids(w, op)
        w.register(label, obj, MNode(label, kind, obj.uuid.int, None, a))
        if op.get("kids_from"):
            w.counters["probe:bulk_move_from_other_collection"] += 1
            if op.get("kids_from_lazy"):
                w.counters["probe:bulk_move_through_lazy_view"] += 1
        for f, ls in allk.items():
            for l in ls:
                w.m.set_parent(l, label)
        if op.get("parent"):
            w.m.set_parent(label, op["parent"])
        exp_uuid = op.get("uuid")
        if exp_uuid is not None and obj.uuid.int != exp_uuid:
            w.violate(("C03", "C04"), "new:uuid", "constructor ignored uuid argument")
        return Exp("ok", value="created", owner=OWN)


@register
class SetParent(Op):
    name = "setparent"
    family = "own_child"

    def labels(self, op):
        out = [(op["child"], tuple(PARENT_OF))]
        if op.get("parent"):
            out.append((op["parent"], None))
        return out

    def touched(self, w, op):
        t = [op["child"]]
        n = w.m.nodes.get(op["child"])
        if n is not None and n.parent:
            t.append(n.parent)
        if op.get("parent"):
            t.append(op["parent"])
        return t

    def ready(self, w, op):
        c = w.m.nodes[op["child"]]
        p = op.get("parent")
        if p is not None:
            if w.m.nodes[p].kind != PARENT_OF[c.kind][0]:
                return False
            if op.get("out_of_domain"):
                return collides(w, [op["child"]], p)
            if collides(w, [op["child"]], p):
                return False
        return True

    def run(self, w, op):
        c = w.objs[op["child"]]
        p = w.objs[op["parent"]] if op.get("parent") else None
        attr = PARENT_OF[w.m.nodes[op["child"]].kind][2]
        out = capture(lambda: setattr(c, attr, p))
        out.value = None
        return out

    def model(self, w, op, out):
        if op.get("out_of_domain"):
            # a second node with a UUID the IR already holds: no statement covers it. Accepted
            # (today) -> the run ends here; refused -> nothing may have changed, the run goes on
            # and the scans after this step decide whether the refusal was clean.
            if out.kind == "ok":
                w.counters["probe:out_of_domain_accepted"] += 1
                raise EndOfDomain()
            w.counters["probe:out_of_domain_refused"] += 1
            return Exp("any")
        w.m.set_parent(op["child"], op.get("parent"))
        return Exp("ok", value=None, owner=("C04",))


# ---------------------------------------------------------------------------
# Set operations from the parent end


class RaisingIter:
    def __init__(self, items, after):
        self.items, self.after = list(items), after

    def __iter__(self):
        for i, x in enumerate(self.items):
            if i == self.after:
                raise SimFault("iterable failed after %d items" % i)
            yield x
        if self.after >= len(self.items):
            raise SimFault("iterable failed at end")


def canon_elems(w, xs):
    out = []
    for x in xs:
        if isinstance(x, (int, str)) and not isinstance(x, bool):
            out.append(x)
        else:
            out.append(w.L(x))
    return sorted(out, key=repr)


def arg_objs(w, items):
    """labels -> objects; ints stay (junk elements of plain sets)."""
    return [w.objs[x] if isinstance(x, str) else x for x in items]


@register
class BulkNew(Op):
    """{"op":"bulk_new","parent":P,"kind":K,"count":N,"base":B}: N fresh default nodes of one
    kind handed to the parent's collection in ONE update() call - collections of a few hundred
    members, where an implementation may switch strategy. Labels B0..B(N-1)."""

    name = "bulk_new"
    family = "construct"

    def labels(self, op):
        return [(op["parent"], (PARENT_OF[op["kind"]][0],))]

    def touched(self, w, op):
        return [op["parent"]]

    def ready(self, w, op):
        return (op["base"] + "0") not in w.m.nodes and (op["base"] + "0") not in w.label_uuid

    def run(self, w, op):
        kind = op["kind"]
        cls = w.kind_cls[kind]
        objs = []
        for i in range(op["count"]):
            objs.append(cls(name="%s%d" % (op["base"], i)) if kind in ("sec", "sym") else cls())
        coll = getattr(w.objs[op["parent"]], PARENT_OF[kind][1])
        out = capture(lambda: coll.update(objs))
        out.value = None
        out.raw = objs
        return out

    def model(self, w, op, out):
        kind = op["kind"]
        if out.kind != "ok":
            return Exp("ok", value=None, owner=OWN)
        for i, obj in enumerate(out.raw):
            label = "%s%d" % (op["base"], i)
            a = DEFAULTS[kind]()
            if kind in ("sec", "sym"):
                a["name"] = label
            w.register(label, obj, MNode(label, kind, obj.uuid.int, None, a))
            w.m.set_parent(label, op["parent"])
        w.counters["probe:bulk_new_nodes"] += len(out.raw)
        return Exp("ok", value=None, owner=OWN)


def wrap_items(m, a):
    """Model: what a collection-valued argument produces - every element of the
    other owning collection, or, for a lazily evaluated filtering generator over
    it, the elements named in "only" (in the other collection's order)."""
    ks = m.kids(a["wrapper"][0], a["wrapper"][1]) if "wrapper" in a else m.nodes[a["from_ir"]].a["modules"]
    only = a.get("only")
    return [k for k in ks if only is None or k in only]


def wrap_obj(w, a, coll):
    """Implementation: the other owning collection itself, or a lazily evaluated
    view of it (iter(coll), a generator over it, a filtering generator) - the
    idiom `dst.update(x for x in src if cond)`, where every insertion removes the
    element from the collection the generator is still walking."""
    lazy = a.get("lazy")
    if lazy is None:
        return coll
    if lazy == "iter":
        return iter(coll)
    only = a.get("only")
    if only is None:
        return (x for x in coll)
    keep = {id(w.objs[l]) for l in only if l in w.objs}
    return (x for x in coll if id(x) in keep)


MUTATING_SET = ("add", "discard", "remove", "pop", "clear", "update", "ior", "isub", "iand", "ixor")
PURE_SET = ("or", "and", "sub", "xor", "ror", "rand", "rsub", "rxor", "eq", "ne", "le", "lt", "ge", "gt", "isdisjoint", "len", "contains", "iter")


@register
class SetOp(Op):
    """{"op":"setop","parent":P,"field":F,"method":M,"args":[...]}.
    args: for add/discard/remove/contains: [x]; for update: [[..],[..]] with an
    optional {"items":[..],"raise_after":k}; for binary operators: [[..]] (a
    plain set) or [{"wrapper":[Q,F2]}] (another owning collection, pure
    operators only)."""

    name = "setop"
    family = "own_set"

    def labels(self, op):
        out = [(op["parent"], None)]
        for l in self._arg_labels(op):
            out.append((l, None))
        return out

    def _arg_labels(self, op):
        ls = []
        for a in op.get("args", []):
            if isinstance(a, str):
                ls.append(a)
            elif isinstance(a, list):
                ls.extend(x for x in a if isinstance(x, str))
            elif isinstance(a, dict):
                if "items" in a:
                    ls.extend(x for x in a["items"] if isinstance(x, str))
                if "wrapper" in a:
                    ls.append(a["wrapper"][0])
        return ls

    def touched(self, w, op):
        t = [op["parent"]]
        for l in self._arg_labels(op):
            t.append(l)
            n = w.m.nodes.get(l)
            if n is not None and n.parent:
                t.append(n.parent)
        t.extend(w.m.kids(op["parent"], op["field"]))
        return t

    def _kinds_ok(self, w, op):
        p = w.m.nodes[op["parent"]]
        if p.kind not in FIELDS or op["field"] not in FIELDS[p.kind] or p.kind == "ir":
            return False
        kinds = FIELDS[p.kind][op["field"]]
        meth = op["method"]
        for a in op.get("args", []):
            if isinstance(a, dict) and "wrapper" in a:
                q, f2 = a["wrapper"]
                qn = w.m.nodes[q]
                if qn.kind not in FIELDS or f2 not in FIELDS[qn.kind] or qn.kind == "ir":
                    return False
                if meth in MUTATING_SET and (FIELDS[qn.kind][f2] != kinds or meth not in ("update", "ior", "isub", "iand", "ixor")):
                    return False
                if meth in MUTATING_SET and q == op["parent"] and (f2 != op["field"] or a.get("only") is not None):
                    return False  # s |= s, s -= s, s ^= s, s.update(s): the collection itself, unfiltered
        if meth in ("add", "update", "ior", "ixor"):
            # everything that may be inserted must be of the right kind
            owners = {a["wrapper"][0] for a in op.get("args", []) if isinstance(a, dict) and "wrapper" in a}
            for l in self._arg_labels(op):
                if l not in owners and w.m.nodes[l].kind not in kinds:
                    return False
            for a in op.get("args", []):
                if isinstance(a, dict) and "wrapper" in a:
                    continue
                items = a if isinstance(a, list) else (a.get("items", []) if isinstance(a, dict) else [a])
                for x in items:
                    if not isinstance(x, str):
                        return False
        return True

    def ready(self, w, op):
        if not self._kinds_ok(w, op):
            return False
        meth = op["method"]
        P = op["parent"]
        if meth in ("add", "update", "ior", "ixor"):
            cur = set(w.m.kids(P, op["field"]))
            incoming = []
            for a in op.get("args", []):
                if isinstance(a, dict) and "wrapper" in a:
                    items = wrap_items(w.m, a)
                else:
                    items = a if isinstance(a, list) else (a.get("items", []) if isinstance(a, dict) else [a])
                for x in items:
                    if x not in cur and x not in incoming:
                        incoming.append(x)
            for x in incoming:
                if is_ancestor(w.m, x, P):
                    return False
            if incoming and collides(w, incoming, P):
                return False
        return True

    # --- implementation side ----------------------------------------------
    def run(self, w, op):
        P = w.objs[op["parent"]]
        coll = getattr(P, op["field"])
        meth = op["method"]
        args = op.get("args", [])

        def plain(a):
            if isinstance(a, dict) and "wrapper" in a:
                return getattr(w.objs[a["wrapper"][0]], a["wrapper"][1])
            return set(arg_objs(w, a))

        def one(a):
            return w.objs[a] if isinstance(a, str) else a

        if meth == "add":
            fn = lambda: coll.add(one(args[0]))
        elif meth == "discard":
            fn = lambda: coll.discard(one(args[0]))
        elif meth == "remove":
            fn = lambda: coll.remove(one(args[0]))
        elif meth == "pop":
            fn = lambda: coll.pop()
        elif meth == "clear":
            fn = lambda: coll.clear()
        elif meth == "update":
            its = []
            for a in args:
                if isinstance(a, dict) and "wrapper" in a:
                    its.append(wrap_obj(w, a, getattr(w.objs[a["wrapper"][0]], a["wrapper"][1])))  # the other owning collection itself (or a lazy view of it)
                elif isinstance(a, dict):
                    its.append(RaisingIter(arg_objs(w, a["items"]), a["raise_after"]))
                else:
                    style = op.get("style", "list")
                    objs = arg_objs(w, a)
                    its.append(iter(objs) if style == "iter" else (tuple(objs) if style == "tuple" else objs))
            fn = lambda: coll.update(*its)
        elif meth in ("ior", "isub", "iand", "ixor"):
            o = plain(args[0])
            name = {"ior": "__ior__", "isub": "__isub__", "iand": "__iand__", "ixor": "__ixor__"}[meth]
            fn = lambda: getattr(coll, name)(o)
        elif meth in ("or", "and", "sub", "xor"):
            o = plain(args[0])
            import operator

            f2 = {"or": operator.or_, "and": operator.and_, "sub": operator.sub, "xor": operator.xor}[meth]
            fn = lambda: f2(coll, o)
        elif meth in ("ror", "rand", "rsub", "rxor"):
            o = plain(args[0])
            import operator

            f2 = {"ror": operator.or_, "rand": operator.and_, "rsub": operator.sub, "rxor": operator.xor}[meth]
            fn = lambda: f2(o, coll)
        elif meth in ("eq", "ne", "le", "lt", "ge", "gt"):
            o = plain(args[0])
            import operator

            f2 = getattr(operator, meth)
            if op.get("reflected"):
                fn = lambda: f2(o, coll)
            else:
                fn = lambda: f2(coll, o)
        elif meth == "isdisjoint":
            o = plain(args[0])
            fn = lambda: coll.isdisjoint(o)
        elif meth == "len":
            fn = lambda: len(coll)
        elif meth == "contains":
            x = one(args[0])
            fn = lambda: x in coll
        elif meth == "iter":
            fn = lambda: list(coll)
        else:
            raise KeyError(meth)
        out = capture(fn)
        if out.kind == "ok":
            r = out.raw
            with w.seams.observing():
                if meth in ("ior", "isub", "iand", "ixor"):
                    out.value = "self" if r is coll else "other:" + type(r).__name__
                elif meth == "pop":
                    out.value = w.L(r)
                elif meth in ("or", "and", "sub", "xor", "ror", "rand", "rsub", "rxor"):
                    import collections.abc as cabc

                    plain_ok = isinstance(r, (set, frozenset)) or (isinstance(r, cabc.Set) and not isinstance(r, w.g.util.SetWrapper))
                    out.value = ["plain" if plain_ok else "notplain:" + type(r).__name__, canon_elems(w, r)]
                    # the caller owns a returned plain value and may do anything with it; if it aliases
                    # the collection's private storage the per-step scans will show it
                    if isinstance(r, set) and op.get("scribble", True):
                        r.clear()
                        w.counters["probe:returned_value_scribbled"] += 1
                elif meth == "iter":
                    out.value = canon_elems(w, r)
                else:
                    out.value = r
        return out

    # --- model side ---------------------------------------------------------
    def model(self, w, op, out):
        m = w.m
        P, field, meth = op["parent"], op["field"], op["method"]
        args = op.get("args", [])
        S = set(m.kids(P, field))
        pre = set(S)

        def plain(a):
            if isinstance(a, dict) and "wrapper" in a:
                return set(m.kids(a["wrapper"][0], a["wrapper"][1]))
            return set(a)

        exp = None
        alts = None
        try:
            if meth == "add":
                S.add(args[0])
                val = None
            elif meth == "discard":
                S.discard(args[0])
                val = None
            elif meth == "remove":
                S.remove(args[0])
                val = None
            elif meth == "pop":
                if not S:
                    raise KeyError()
                val = out.value if out.kind == "ok" else None
                if out.kind == "ok":
                    if val not in S:
                        exp = Exp("ok", owner=("C16",), alts=sorted(S))
                    else:
                        S.discard(val)
                if len(pre) > 1:
                    w.counters["probe:pop_multi"] += 1
            elif meth == "clear":
                S.clear()
                val = None
            elif meth == "update":
                val = None
                failed = None
                seq = []  # elements in the order a built-in set.update would insert them
                for a in args:
                    if isinstance(a, dict) and "wrapper" in a:
                        seq.extend(wrap_items(m, a))
                        w.counters["probe:bulk_move_from_other_collection"] += 1
                        if a.get("lazy"):
                            w.counters["probe:bulk_move_through_lazy_view"] += 1
                        if a["wrapper"][0] == P:
                            w.counters["probe:collection_given_itself"] += 1
                    elif isinstance(a, dict):
                        seq.extend(a["items"][: a["raise_after"]])
                        failed = SimFault
                        break
                    else:
                        seq.extend(a)
                if failed:
                    # "a failed operation leaves the collection and its elements consistent":
                    # any prefix of the insertion sequence may have been applied (none, all up
                    # to the failure, or everything before the failing argument)
                    exp = Exp("exc", exc_cls=SimFault, owner=("C16",))
                    live = set(w.Ls(getattr(w.objs[P], field)))
                    S = set(pre)
                    chosen = set(pre)
                    for x in [None] + seq:
                        if x is not None:
                            S.add(x)
                        if S == live:
                            chosen = set(S)
                    S = chosen
                else:
                    S = set(S) | set(seq)
            elif meth == "ior":
                S |= plain(args[0])
                val = "self"
            elif meth == "isub":
                S -= plain(args[0])
                val = "self"
            elif meth == "iand":
                S &= plain(args[0])
                val = "self"
            elif meth == "ixor":
                S ^= plain(args[0])
                val = "self"
            elif meth in ("or", "and", "sub", "xor", "ror", "rand", "rsub", "rxor"):
                o = plain(args[0])
                r = {
                    "or": lambda: S | o,
                    "and": lambda: S & o,
                    "sub": lambda: S - o,
                    "xor": lambda: S ^ o,
                    "ror": lambda: o | S,
                    "rand": lambda: o & S,
                    "rsub": lambda: o - S,
                    "rxor": lambda: o ^ S,
                }[meth]()
                val = ["plain", sorted(r, key=repr)]
            elif meth in ("eq", "ne", "le", "lt", "ge", "gt"):
                import operator

                o = plain(args[0])
                val = getattr(operator, meth)(o, S) if op.get("reflected") else getattr(operator, meth)(S, o)
            elif meth == "isdisjoint":
                val = S.isdisjoint(plain(args[0]))
            elif meth == "len":
                val = len(S)
            elif meth == "contains":
                val = args[0] in S
            elif meth == "iter":
                val = sorted(S, key=repr)
            if exp is None:
                exp = Exp("ok", value=val, owner=("C16",))
        except KeyError:
            exp = Exp("exc", exc_cls=KeyError, owner=("C16",))
            S = pre
        # write back: new members move here, removed members become free
        for x in S - pre:
            m.set_parent(x, P)
        for x in pre - S:
            m.set_parent(x, None)
        return exp


# ---------------------------------------------------------------------------
# ir.modules (list) operations

MUTATING_LIST = ("insert", "append", "extend", "iadd", "pop", "remove", "delitem", "delslice", "setitem", "setslice", "reverse", "clear", "iter_mutate")
PURE_LIST = ("index", "count", "getitem", "getslice", "len", "contains", "iter", "reversed")


def _slice(a):
    return slice(a[0], a[1], a[2])


@register
class ListOp(Op):
    """{"op":"listop","ir":I,"method":M,"args":[...]}"""

    name = "listop"
    family = "own_list"

    def _arg_labels(self, op):
        ls = []
        for a in op.get("args", []):
            if isinstance(a, str):
                ls.append(a)
            elif isinstance(a, dict):
                ls.extend(a.get("items", []))
        return ls

    def labels(self, op):
        extra = [(a["from_ir"], ("ir",)) for a in op.get("args", []) if isinstance(a, dict) and "from_ir" in a]
        return [(op["ir"], ("ir",))] + [(l, ("mod",)) for l in self._arg_labels(op)] + extra

    def touched(self, w, op):
        t = [op["ir"]] + list(w.m.nodes[op["ir"]].a["modules"])
        for l in self._arg_labels(op):
            t.append(l)
            n = w.m.nodes.get(l)
            if n is not None and n.parent:
                t.append(n.parent)
        return t

    def ready(self, w, op):
        meth = op["method"]
        if meth == "iter_mutate":
            k, how, x = op["args"]
            cur = w.m.nodes[op["ir"]].a["modules"]
            if how == 0:
                return x in cur
            return x not in cur and w.m.nodes[x].parent is None and not collides(w, [x], op["ir"])
        if meth in ("insert", "append", "extend", "iadd", "setitem", "setslice"):
            I = op["ir"]
            m = w.m
            cur = list(m.nodes[I].a["modules"])
            for a_ in op.get("args", []):
                if isinstance(a_, dict) and "from_ir" in a_ and a_["from_ir"] == I:
                    return False  # extend(self) is outside the workload
            incoming = [l for l in self._arg_labels(op) if l not in cur]
            for a_ in op.get("args", []):
                if isinstance(a_, dict) and "from_ir" in a_:
                    incoming += [l for l in wrap_items(m, a_) if l not in cur]
            inc = []
            for l in incoming:
                if l not in inc:
                    inc.append(l)
            if not inc:
                return True
            # modules that leave the list in the same operation make room:
            # the UUID-distinctness precondition is about the state before
            # and after the operation
            leaving = []
            try:
                L = list(cur)
                a = op.get("args", [])
                if meth == "setitem":
                    L[a[0]] = a[1]
                elif meth == "setslice" and not (isinstance(a[1], dict) and "raise_after" in a[1]):
                    L[_slice(a[0])] = list(wrap_items(m, a[1]) if "from_ir" in a[1] else a[1]["items"])
                leaving = [x for x in cur if x not in L]
            except (IndexError, ValueError, TypeError):
                leaving = []
            gone = set()
            for x in leaving:
                gone.update(m.subtree(x))
            sub = set()
            for c in inc:
                sub.update(m.subtree(c))
            uu = [m.nodes[l].uuid for l in sub]
            if len(set(uu)) != len(uu):
                return False
            others = [l for l in m.subtree(I) if l not in sub and l not in gone]
            if set(uu) & m.uuids(others):
                return False
        return True

    def run(self, w, op):
        I = w.objs[op["ir"]]
        lst = I.modules
        meth = op["method"]
        args = op.get("args", [])

        def objs(a):
            if isinstance(a, dict) and "from_ir" in a:
                return wrap_obj(w, a, w.objs[a["from_ir"]].modules)  # the other IR's module list itself (or a lazy view of it)
            if isinstance(a, dict):
                os_ = [w.objs[x] for x in a["items"]]
                if "raise_after" in a:
                    return RaisingIter(os_, a["raise_after"])
                style = a.get("style", "list")
                return iter(os_) if style == "iter" else (tuple(os_) if style == "tuple" else os_)
            return w.objs[a]

        if meth == "insert":
            fn = lambda: lst.insert(args[0], objs(args[1]))
        elif meth == "append":
            fn = lambda: lst.append(objs(args[0]))
        elif meth == "extend":
            fn = lambda: lst.extend(objs(args[0]))
        elif meth == "iadd":
            o = objs(args[0])
            fn = lambda: lst.__iadd__(o)
        elif meth == "pop":
            fn = (lambda: lst.pop()) if not args else (lambda: lst.pop(args[0]))
        elif meth == "remove":
            fn = lambda: lst.remove(objs(args[0]))
        elif meth == "delitem":

            def fn():
                del lst[args[0]]

        elif meth == "delslice":

            def fn():
                del lst[_slice(args[0])]

        elif meth == "setitem":

            def fn():
                lst[args[0]] = objs(args[1])

        elif meth == "setslice":

            def fn():
                lst[_slice(args[0])] = objs(args[1])

        elif meth == "reverse":
            fn = lambda: lst.reverse()
        elif meth == "clear":
            fn = lambda: lst.clear()
        elif meth == "index":
            fn = lambda: lst.index(objs(args[0]), *args[1:])  # optional start, stop
        elif meth == "count":
            fn = lambda: lst.count(objs(args[0]))
        elif meth == "getitem":
            fn = lambda: lst[args[0]]
        elif meth == "getslice":
            fn = lambda: lst[_slice(args[0])]
        elif meth == "len":
            fn = lambda: len(lst)
        elif meth == "contains":
            x = objs(args[0])
            fn = lambda: x in lst
        elif meth == "iter_mutate":
            # an iterator over ir.modules is advanced k times, the list changes size through
            # ANOTHER route (a module leaves via m.ir = None, or joins via m.ir = I), then the
            # iterator is drained: the built-in list protocol (index based: sees appended items,
            # ends early when the list shrank), never an IndexError
            k, how, x = args
            xo = w.objs[x]

            def fn():
                it = iter(lst)
                seen = []
                for _ in range(k):
                    try:
                        seen.append(next(it))
                    except StopIteration:
                        break
                xo.ir = None if how == 0 else I
                seen.extend(it)
                return seen

        elif meth == "iter":
            fn = lambda: list(lst)
        elif meth == "reversed":
            fn = lambda: list(reversed(lst))
        else:
            raise KeyError(meth)
        out = capture(fn)
        if out.kind == "ok":
            r = out.raw
            with w.seams.observing():
                if meth == "iadd":
                    out.value = "self" if r is lst else "other"
                elif meth in ("pop", "getitem"):
                    out.value = w.L(r)
                elif meth == "iter_mutate":
                    out.value = [w.L(x) for x in r]
                elif meth in ("getslice", "iter", "reversed"):
                    plain_ok = type(r) is list
                    out.value = ["plain" if plain_ok else "notplain:" + type(r).__name__, [w.L(x) for x in r]]
                    if meth == "getslice" and type(r) is list:
                        # the returned list is the caller's: emptying it must not touch ir.modules
                        del r[:]
                        w.counters["probe:returned_value_scribbled"] += 1
                else:
                    out.value = r
        return out

    def model(self, w, op, out):
        m = w.m
        I, meth = op["ir"], op["method"]
        args = op.get("args", [])
        L0 = list(m.nodes[I].a["modules"])
        L = list(L0)
        owner = ("C16", "C04")

        def items(a):
            if isinstance(a, dict) and "from_ir" in a:
                return wrap_items(m, a)
            if isinstance(a, dict):
                return list(a["items"])
            return a

        exp = None
        partial = None
        try:
            if meth == "insert":
                L.insert(args[0], args[1])
                val = None
            elif meth == "append":
                L.append(args[0])
                val = None
            elif meth in ("extend", "iadd"):
                a = args[0]
                if isinstance(a, dict) and "from_ir" in a:
                    w.counters["probe:bulk_move_from_other_collection"] += 1
                    if a.get("lazy"):
                        w.counters["probe:bulk_move_through_lazy_view"] += 1
                if isinstance(a, dict) and "raise_after" in a:
                    partial = L + a["items"][: a["raise_after"]]
                    raise SimFault()
                L.extend(items(a))
                val = None if meth == "extend" else "self"
            elif meth == "pop":
                val = L.pop() if not args else L.pop(args[0])
            elif meth == "remove":
                L.remove(args[0])
                val = None
            elif meth == "delitem":
                del L[args[0]]
                val = None
            elif meth == "delslice":
                del L[_slice(args[0])]
                val = None
            elif meth == "setitem":
                L[args[0]] = args[1]
                val = None
            elif meth == "setslice":
                a = args[1]
                if isinstance(a, dict) and "raise_after" in a:
                    raise SimFault()
                if isinstance(a, dict) and "from_ir" in a:
                    w.counters["probe:slice_assigned_from_other_collection"] += 1
                L[_slice(args[0])] = items(a)
                val = None
            elif meth == "reverse":
                L.reverse()
                val = None
            elif meth == "clear":
                L.clear()
                val = None
            elif meth == "index":
                val = L.index(args[0], *args[1:])
            elif meth == "count":
                val = L.count(args[0])
            elif meth == "getitem":
                val = L[args[0]]
            elif meth == "getslice":
                val = ["plain", L[_slice(args[0])]]
            elif meth == "len":
                val = len(L)
            elif meth == "contains":
                val = args[0] in L
            elif meth == "iter_mutate":
                k, how, x = args
                it = iter(L)
                seen = []
                for _ in range(k):
                    try:
                        seen.append(next(it))
                    except StopIteration:
                        break
                if how == 0:
                    L.remove(x)
                else:
                    L.append(x)
                seen.extend(it)
                val = seen
            elif meth == "iter":
                val = ["plain", list(L)]
            elif meth == "reversed":
                val = ["plain", list(reversed(L))]
            exp = Exp("ok", value=val, owner=owner)
        except (IndexError, ValueError, TypeError, SimFault) as e:
            # (TypeError: an index that is no integer - "x", None, 1.5 - fails like the built-in's)
            exp = Exp("exc", exc_cls=type(e), owner=owner)
            L = list(L0)
        # Resulting contents. live list as the implementation shows it:
        live = [w.L(x) for x in w.objs[I].modules]
        final = L
        if partial is not None:
            # failed bulk insert: pre-state or built-in post-failure state
            final = partial if live == _dedup_keep_last(partial) or live == partial else L0
            final = _resolve_dups(final, live, w, op, owner)
        elif len(set(L)) != len(L):
            # I5: an element already in this list was inserted again. The
            # result must have no duplicates, exactly the built-in result's
            # elements, and keep the relative order of the other elements.
            final = _resolve_dups(L, live, w, op, owner)
            if meth in ("insert", "append", "extend", "iadd") and partial is None:
                # pure insertions: the node is MOVED to where it was inserted - either the
                # built-in result with the stale occurrence dropped, or the operation applied
                # after the node left its old place
                keep_new = _dedup_keep_last(L) if meth != "insert" else _dedup_keep_new_insert(L0, args)
                moved = _apply_after_removal(L0, meth, args, items)
                if live not in (keep_new, moved):
                    w.violate(owner, "list:moved_to_wrong_place", "after %r on %r: list %r; a moved node belongs where it was inserted: %r or %r" % (op, L0, live, keep_new, moved))
        # write back with move semantics
        newset, oldset = set(final), set(L0)
        for x in oldset - newset:
            m.nodes[x].parent = None
        for x in final:
            if x not in oldset:
                n = m.nodes[x]
                if n.parent is not None and n.parent != I:
                    lst = m.nodes[n.parent].a["modules"]
                    while x in lst:
                        lst.remove(x)
                n.parent = I
        m.nodes[I].a["modules"] = list(final)
        return exp


def _dedup_keep_new_insert(L0, args):
    i, x = args[0], args[1]
    L = list(L0)
    L.insert(i, x)
    # position of the new occurrence as list.insert computed it
    n = len(L0)
    pos = max(0, n + i) if i < 0 else min(i, n)
    return [y for k, y in enumerate(L) if y != x or k == pos]


def _apply_after_removal(L0, meth, args, items):
    if meth == "insert":
        L = [y for y in L0 if y != args[1]]
        L.insert(args[0], args[1])
        return L
    new = [args[0]] if meth == "append" else list(items(args[0]))
    L = [y for y in L0 if y not in new]
    for y in new:
        if y in L:
            L.remove(y)
        L.append(y)
    return L


def _dedup_keep_last(L):
    out = []
    for x in reversed(L):
        if x not in out:
            out.append(x)
    out.reverse()
    return out


def _resolve_dups(L, live, w, op, owner):
    """Relaxed expectation I5. Returns the list the model adopts."""
    if len(set(L)) == len(L):
        return L
    w.counters["probe:list_dup_insert"] += 1
    dups = {x for x in L if L.count(x) > 1}
    ok = len(set(live)) == len(live) and set(live) == set(L)
    if ok:
        others_expected = [x for x in L if x not in dups]
        others_live = [x for x in live if x not in dups]
        ok = others_expected == others_live
    if not ok:
        w.violate(owner, "list:dup_insert", "after %r: list %r, built-in result %r (duplicates must collapse, other elements keep order)" % (op, live, L))
    return list(live)


# ---------------------------------------------------------------------------
# attribute edits


@register
class SetAttr(Op):
    """{"op":"setattr","label":L,"attr":A,"value":V}"""

    name = "setattr"
    family = "attr"

    ATTRS = {
        "ir": ("version",),
        "mod": ("name", "binary_path", "isa", "file_format", "byte_order", "preferred_addr", "rebase_delta", "entry_point"),
        "sec": ("name", "flags", "flag_add", "flag_discard"),
        "bi": ("address", "size"),
        "cb": ("offset", "size", "decode_mode"),
        "db": ("offset", "size"),
        "sym": ("name", "at_end", "referent", "value"),
    }

    def labels(self, op):
        out = [(op["label"], None)]
        if op["attr"] in ("entry_point",) and op["value"]:
            out.append((op["value"], ("cb",)))
        if op["attr"] == "referent" and op["value"]:
            out.append((op["value"], ("cb", "db", "px")))
        return out

    def touched(self, w, op):
        return [op["label"]]

    def ready(self, w, op):
        k = w.m.nodes[op["label"]].kind
        return op["attr"] in self.ATTRS.get(k, ())

    def run(self, w, op):
        o = w.objs[op["label"]]
        k = w.m.nodes[op["label"]].kind
        attr, v = op["attr"], op["value"]
        if attr == "flag_add":
            fn = lambda: o.flags.add(w.g.Section.Flag[v])
        elif attr == "flag_discard":
            fn = lambda: o.flags.discard(w.g.Section.Flag[v])
        else:
            iv = to_impl(w, k, attr, v)
            fn = lambda: setattr(o, attr, iv)
        out = capture(fn)
        out.value = None
        return out

    def model(self, w, op, out):
        n = w.m.nodes[op["label"]]
        attr, v = op["attr"], op["value"]
        if attr == "address" and isinstance(v, int) and v < 0:
            # no statement says whether an address outside the schema's range is accepted (it is,
            # today). Either way everything must stay consistent: taken -> the model follows;
            # refused -> nothing changed. The scans after this step decide.
            w.counters["probe:negative_address_" + ("taken" if out.kind == "ok" else "refused")] += 1
            if out.kind == "ok":
                n.a[attr] = v
            return Exp("any")
        if attr == "flags":
            n.a["flags"] = set(v)
        elif attr == "flag_add":
            n.a["flags"].add(v)
        elif attr == "flag_discard":
            n.a["flags"].discard(v)
        elif attr == "referent":
            n.a["payload"] = ("ref", v) if v is not None else None
        elif attr == "value":
            n.a["payload"] = ("int", v) if v is not None else None
        elif attr == "size" and n.kind == "bi":
            n.a["size"] = v
            if len(n.a["contents"]) > v:
                del n.a["contents"][v:]
        else:
            n.a[attr] = v
        return Exp("ok", value=None, owner=("C19",) if (n.kind == "bi" and attr == "size") else ())
