"""C08, Java clause: a real second implementation run outside the simulator.

The repository's Java AuxData codecs (java/com/grammatech/gtirb/auxdatacodec,
tuple, variant, Offset, Util) are compiled from /repo's working tree together
with a 10-line stub for com.google.protobuf.ByteString and java/Driver.java.
For every sampled table that gtirb wrote to the simulated disk:
  1. the Java codec decodes gtirb's bytes; the decoded value must equal the model value;
  2. the Java codec re-encodes the value; gtirb must decode those bytes to the model value.
Types the Java codec does not support (double, Addr, tuple arity > 5, variant
arity other than 2/3/11) are not sampled.
"""
import json
import os
import shutil
import subprocess

from . import refcodec as R
from . import auxm

VERIF = os.path.dirname(os.path.dirname(os.path.abspath(__file__)))
REPO = os.environ.get("GSIM_REPO", "/repo")
JAVA_OK_LEAVES = {"int8_t", "uint8_t", "int16_t", "uint16_t", "int32_t", "uint32_t", "int64_t", "uint64_t", "bool", "float", "string", "UUID", "Offset"}


def java_supported(t):
    n, subs = t
    if n in JAVA_OK_LEAVES:
        return not subs
    if n in ("sequence", "set"):
        return java_supported(subs[0])
    if n == "mapping":
        return java_supported(subs[0]) and java_supported(subs[1])
    if n == "tuple":
        return 1 <= len(subs) <= 5 and all(java_supported(s) for s in subs)
    if n == "variant":
        return len(subs) in (2, 3, 11) and all(java_supported(s) for s in subs)
    return False


def compile_java(build_dir):
    if shutil.which("javac") is None or shutil.which("java") is None:
        return None, "javac/java not installed"
    out = os.path.join(build_dir, "java")
    os.makedirs(out, exist_ok=True)
    jroot = os.path.join(REPO, "java", "com", "grammatech", "gtirb")
    if not os.path.isdir(os.path.join(jroot, "auxdatacodec")):
        return None, "Java codec sources not found under %s" % REPO
    srcs = [os.path.join(VERIF, "java", "com", "google", "protobuf", "ByteString.java"), os.path.join(VERIF, "java", "Driver.java"), os.path.join(jroot, "Offset.java"), os.path.join(jroot, "Util.java")]
    for sub in ("auxdatacodec", "tuple", "variant"):
        d = os.path.join(jroot, sub)
        srcs += sorted(os.path.join(d, f) for f in os.listdir(d) if f.endswith(".java"))
    cp = subprocess.run(["javac", "-nowarn", "-d", out] + srcs, capture_output=True, text=True, timeout=300)
    if cp.returncode != 0:
        return None, "javac failed: " + cp.stderr[-500:]
    return out, None


def from_java(j, t):
    """Driver rendering (parsed JSON) -> canonical value."""
    n, subs = t
    if n in R.INTS:
        return int(j)
    if n == "bool":
        return bool(j)
    if n == "float":
        return {"f32": j["f32"]}
    if n == "string":
        return bytes.fromhex(j["s"]).decode("utf-8")
    if n == "UUID":
        return {"uuid": int(j["uuid"], 16)}
    if n == "Offset":
        return {"offset": [{"uuid": int(j["offset"][0], 16)}, int(j["offset"][1])]}
    if n == "sequence":
        return [from_java(x, subs[0]) for x in j]
    if n == "set":
        return {"set": [from_java(x, subs[0]) for x in j["set"]]}
    if n == "mapping":
        return {"map": [[from_java(k, subs[0]), from_java(v, subs[1])] for k, v in j["map"]]}
    if n == "tuple":
        return {"tuple": [from_java(x, st) for x, st in zip(j["tuple"], subs)]}
    if n == "variant":
        return {"variant": [j["variant"][0], from_java(j["variant"][1], subs[j["variant"][0]])]}
    raise KeyError(n)


def task_gtirb_decode(items):
    """Worker task: decode (type, hex) pairs with the built gtirb; returns
    canonical values (or error strings)."""
    from gsim.runner import CTX

    class _W:
        g = CTX.g

    out = []
    for tn, hx in items:
        try:
            v = CTX.g.AuxData.serializer.decode(bytes.fromhex(hx), tn)
            out.append(("ok", auxm.from_impl(_W, R.parse_type(tn), v)))
        except Exception as e:  # noqa
            out.append(("err", "%s: %s" % (type(e).__name__, e)))
    return out


def run_stage(samples, pools, build_dir):
    """samples: [{"type","hex","want"}]. Returns dict(coverage=..., violations=[...])."""
    cov = {"java_stage": {"status": "not run", "tables": 0}}
    jdir, err = compile_java(build_dir)
    if jdir is None:
        cov["java_stage"]["status"] = "unavailable: " + err
        return {"coverage": cov, "violations": []}
    uniq = {}
    for s in samples:
        uniq.setdefault((s["type"], s["hex"]), s)
    items = list(uniq.values())
    inp = "".join("%d\t%s\t%s\n" % (i, s["type"], s["hex"]) for i, s in enumerate(items))
    cp = subprocess.run(["java", "-cp", jdir, "Driver"], input=inp, capture_output=True, text=True, timeout=600)
    viol = []
    n_ok = n_uns = 0
    re_enc = []
    for line in cp.stdout.splitlines():
        p = line.split("\t")
        i = int(p[0])
        s = items[i]
        t = R.parse_type(s["type"])
        if p[1] == "UNSUPPORTED":
            n_uns += 1
            continue
        if p[1] == "ERROR":
            viol.append({"id": "java%d" % i, "check": "c08:java_cannot_decode", "sample": s, "detail": "Java codec fails on gtirb's bytes for %s %s: %s" % (s["type"], s["hex"], p[2])})
            continue
        n_ok += 1
        got = R.canon(from_java(json.loads(p[3]), t), t)
        if not auxm.cv_equal(got, s["want"], t):
            viol.append({"id": "java%d" % i, "check": "c08:java_decodes_other_value", "sample": s, "detail": "%s: gtirb wrote %s for %r; the Java codec decodes %r" % (s["type"], s["hex"], s["want"], got)})
            continue
        re_enc.append((i, p[2]))
    # Java's bytes back through gtirb
    if re_enc:
        res = pools["upb"].submit(task_gtirb_decode, [(items[i]["type"], hx) for i, hx in re_enc]).result(timeout=600)
        for (i, hx), (st, val) in zip(re_enc, res):
            s = items[i]
            t = R.parse_type(s["type"])
            if st != "ok":
                viol.append({"id": "javaback%d" % i, "check": "c08:java_bytes_undecodable", "sample": s, "detail": "%s: gtirb cannot decode the Java codec's bytes %s: %s" % (s["type"], hx, val)})
            elif not auxm.cv_equal(R.canon(val, t), s["want"], t):
                viol.append({"id": "javaback%d" % i, "check": "c08:java_bytes_other_value", "sample": s, "detail": "%s: Java wrote %s for %r; gtirb decodes %r" % (s["type"], hx, s["want"], val)})
    def arities(t, acc):
        n, subs = t
        if n in ("tuple", "variant"):
            acc.add("%s%d" % (n, len(subs)))
        for x in subs:
            arities(x, acc)
        return acc

    ar = {}
    for s in items:
        for a in arities(R.parse_type(s["type"]), set()):
            ar[a] = ar.get(a, 0) + 1
    cov["java_stage"] = {"status": "ran", "tables_by_tuple_or_variant_arity": dict(sorted(ar.items())), "tables_sent": len(items), "decoded_by_java_and_equal": n_ok - len([v for v in viol if v["check"].startswith("c08:java_dec")]), "unsupported_by_java": n_uns, "java_bytes_decoded_by_gtirb": len(re_enc), "component": "real second implementation (repository's Java codecs, javac-built from the working tree), run outside the simulator"}
    return {"coverage": cov, "violations": viol[:3]}
