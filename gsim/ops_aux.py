"""AuxData operations and oracles (C07, C08, C09-aux, C14).

Per table the model keeps: current type name, current canonical value (or
None for a blob of unknown type), the bytes it was loaded with (raw), the type
name it was loaded with (type0), whether it was touched since load, and the IR
it was loaded into (home: lazy decoding resolves UUIDs against that IR).
"""
import uuid as _uuid

from . import auxm
from . import refcodec as R
from .ops import Exp, Op, Out, capture, register

OWN = ("C07", "C14")


def table(type_name, cv):
    return {"type": type_name, "cv": cv, "raw": None, "type0": None, "state": "fresh", "home": None}


def classify_raw(raw, type_name):
    """What the bytes mean under the reference codec: ('value', cv) or
    ('blob',) if decoding reaches a type name without codec."""
    t = R.parse_type(type_name)
    try:
        cv, used = R.decode(raw, t)
    except R.RefError as e:
        if "unknown type" in str(e):
            return ("blob",)
        if "ill-parametrised" in str(e):
            return ("illparam",)
        raise
    return ("value", cv, used)


def container_of(w, label):
    return w.objs[label].aux_data


def unsavable_aux(w, snap):
    """Does the IR hold a table whose current value cannot be encoded (assigned on purpose)?"""
    nodes = snap["nodes"]
    for cl in [snap["ir"]] + list(nodes[snap["ir"]].a["modules"]):
        for t in nodes[cl].a["aux"].values():
            if t["state"] == "bad":
                return True
    return False


# ---------------------------------------------------------------------------
# oracles on a written message


def check_saved_aux(w, msg, snap):
    from .persist import aux_entries

    nodes = snap["nodes"]
    if unsavable_aux(w, snap):
        w.violate(("C07", "C08", "C14"), "aux:unencodable_saved", "save succeeded although a table holds a value outside its type's range")
    seen = set()
    for cl, name, ad in aux_entries(msg, snap):
        seen.add((cl, name))
        tbl = nodes[cl].a["aux"].get(name)
        if tbl is None:
            w.violate(("C14", "C01"), "c14:extra_table", "%s.aux_data[%r] written but not in the container" % (cl, name))
        if ad.type_name != tbl["type"]:
            w.violate(("C14", "C02"), "c14:type_name", "%s.aux_data[%r] written with type %r, current type name is %r" % (cl, name, ad.type_name, tbl["type"]))
        t = R.parse_type(tbl["type"])
        data = bytes(ad.data)
        untouched = tbl["raw"] is not None and tbl["state"] == "untouched" and tbl["type"] == tbl["type0"]
        if untouched:
            w.counters["probe:aux_saved_untouched"] += 1
            if data != tbl["raw"]:
                w.violate(("C14",), "c14:untouched_rewritten", "%s.aux_data[%r] (%s) never read, but written bytes %s differ from the loaded bytes %s" % (cl, name, tbl["type"], data.hex(), tbl["raw"].hex()))
            continue
        if tbl["cv"] is None:
            # blob: a type this API has no codec for (reached while decoding)
            w.counters["probe:aux_saved_blob_after_read"] += 1
            if data != tbl["raw"]:
                w.violate(("C14",), "c14:unknown_rewritten", "%s.aux_data[%r] (%s) has no codec; written bytes %s differ from the loaded bytes %s" % (cl, name, tbl["type"], data.hex(), tbl["raw"].hex()))
            continue
        # encoding of the current value under the current type name
        w.counters["probe:aux_saved_encoded"] += 1
        want = R.canon(tbl["cv"], t, auxm.w_uuid_of(w))
        try:
            got, used = R.decode(data, t)
        except (R.RefError, UnicodeDecodeError) as e:
            w.violate(("C08", "C14", "C07", "C01"), "c08:undecodable", "%s.aux_data[%r] (%s): reference codec cannot decode written bytes %s: %s" % (cl, name, tbl["type"], data.hex(), e))
        if used != len(data):
            w.violate(("C08", "C14", "C07", "C01"), "c08:trailing", "%s.aux_data[%r] (%s): %d bytes written, value occupies %d" % (cl, name, tbl["type"], len(data), used))
        if not auxm.cv_equal(got, want, t):
            stale = tbl["raw"] is not None and data == tbl["raw"]
            w.violate(
                ("C14", "C08", "C07", "C01") if stale else ("C08", "C14", "C07", "C01"),
                "c14:stale_bytes" if stale else "c08:wrong_value",
                "%s.aux_data[%r] (%s, %s): written bytes decode to %r, current value is %r" % (cl, name, tbl["type"], tbl["state"], got, want),
            )
        if w.cfg.get("collect_java"):
            from .javastage import java_supported

            ex = getattr(w, "extras", None)
            if ex is None:
                ex = w.extras = {}
            js = ex.setdefault("java", [])
            if len(js) < 3 and java_supported(t):
                js.append({"type": tbl["type"], "hex": data.hex(), "want": want})
        if _has_unordered(t) and tbl["state"] in ("read", "mutated", "retyped", "retyped_read") and tbl.get("type0") and _skeleton(t) == _skeleton(R.parse_type(tbl["type0"])):
            # (only where the current value is known to come from DECODING under a type with the same
            # container skeleton, i.e. holds real Python sets / dicts: a caller may assign a list that
            # repeats an element to a set-typed table, and that is written as given)
            # element ORDER of sets / mappings is free, their number is not: an encoder working from
            # the current value (a Python set / dict) cannot list a member twice, so the length of
            # the encoding is fixed - bytes loaded from a non-canonical file and written back after a
            # type_name change are longer
            ref = R.encode(want, t)
            if len(data) != len(ref):
                stale = tbl["raw"] is not None and data == tbl["raw"]
                w.violate(("C14", "C08") if stale else ("C08", "C14"), "c14:stale_bytes" if stale else "c08:noncanonical", "%s.aux_data[%r] (%s, %s): %d bytes written, the encoding of the current value has %d%s" % (cl, name, tbl["type"], tbl["state"], len(data), len(ref), " (the loaded bytes were written back)" if stale else ""))
        if not _has_unordered(t):
            ref = R.encode(want, t)
            if data != ref and not _f32_nan(t):
                w.violate(("C08",), "c08:bytes", "%s.aux_data[%r] (%s): written %s, format prescribes %s" % (cl, name, tbl["type"], data.hex(), ref.hex()))
            w.counters["probe:aux_bytes_compared"] += 1
    for cl in [snap["ir"]] + list(nodes[snap["ir"]].a["modules"]):
        for name in nodes[cl].a["aux"]:
            if (cl, name) not in seen:
                w.violate(("C14", "C01"), "c14:lost_table", "%s.aux_data[%r] is missing from the written message" % (cl, name))


def _skeleton(t):
    return (t[0] if t[1] else "_", [_skeleton(x) for x in t[1]])


def _has_unordered(t):
    return t[0] in ("set", "mapping") or any(_has_unordered(s) for s in t[1])


def _has_double(t):
    return t[0] == "double" or any(_has_double(s) for s in t[1])


def _f32_nan(t):
    return t[0] == "float" or any(_f32_nan(s) for s in t[1])


def note_saved(w, msg, snap):
    """After a successful save the snapshot's tables are 'as written': when
    this snapshot is loaded again they start raw and untouched."""
    from .persist import aux_entries

    nodes = snap["nodes"]
    for cl, name, ad in aux_entries(msg, snap):
        tbl = nodes[cl].a["aux"].get(name)
        if tbl is None:
            continue
        tbl["raw"] = bytes(ad.data)
        tbl["type0"] = tbl["type"]
        tbl["state"] = "untouched"
        tbl["home"] = snap["ir"]
        tbl.pop("pre_cv", None)
        tbl.pop("decoded_lazily", None)
    # On the LIVE side, saving a table whose type name was changed while its bytes were still
    # undecoded makes gtirb decode it now (AuxData._to_protobuf reads .data): UUIDs are resolved
    # against the IR as it is at this save, not at a later read.
    live = w.m.nodes
    for cl in [snap["ir"]] + list(nodes[snap["ir"]].a["modules"]):
        if cl in live:
            for t in live[cl].a["aux"].values():
                if t["state"] == "retyped":
                    t["state"] = "retyped_read"


# ---------------------------------------------------------------------------
# reading a table: value, identity of references


def check_read(w, cl, name, tbl, v, owners_value, owners_ident, decoded_now=False):
    g = w.g
    cur = tbl["cv"]
    if tbl["state"] in ("retyped", "retyped_read") and tbl["cv"] is not None:
        # .data is what the loaded bytes decode to under the type they were loaded with
        t = R.parse_type(tbl["type0"])
        cur = tbl["pre_cv"]
    else:
        t = R.parse_type(tbl["type"])
    where = "%s.aux_data[%r] (%s)" % (cl, name, R.type_str(t))
    if tbl["cv"] is None:
        if not isinstance(v, bytes) or bytes(v) != tbl["raw"]:
            w.violate(("C14",) + owners_value, "aux:blob", "%s has no codec; .data is %r, loaded bytes %r" % (where, v, tbl["raw"]))
        return
    try:
        got = auxm.from_impl(w, t, v)
    except auxm.Uncanonical as e:
        w.violate(owners_value, "aux:read_shape", "%s: .data is not a value of its type: %s" % (where, e))
    want = R.canon(cur, t, auxm.w_uuid_of(w))
    if not auxm.cv_equal(got, want, t):
        w.violate(owners_value, "aux:read_value", "%s: .data decodes to %r, expected %r" % (where, got, want))
    # identity of UUID / Offset entries, for lazily decoded tables
    if decoded_now:
        # this very read decoded the loaded bytes: UUIDs resolve against the
        # loading IR as it is at this moment
        home = tbl["home"]
        reach = {}
        if home in w.objs:
            for n in w.live_walk(w.objs[home]):
                reach.setdefault(n.uuid.int, n)
        refs = []
        auxm.refs_in(t, v, g, refs)
        for x in refs:
            u = x.uuid.int if isinstance(x, g.Node) else x.int
            want_obj = reach.get(u)
            if want_obj is not None:
                if x is not want_obj:
                    w.violate(owners_ident, "aux:ref_identity", "%s: entry for UUID of %s decoded to %r, not to the attached node" % (where, w.L(want_obj), type(x).__name__))
                w.counters["probe:aux_ref_to_node"] += 1
            else:
                if not isinstance(x, _uuid.UUID):
                    w.violate(owners_ident, "aux:ref_plain", "%s: entry for a UUID no attached node has decoded to %s (%s)" % (where, type(x).__name__, w.L(x)))
                w.counters["probe:aux_ref_plain"] += 1


# ---------------------------------------------------------------------------
# operations


class AuxBase(Op):
    family = "aux"
    timeout_owner = ("C07", "C14")

    def labels(self, op):
        return [(op["c"], ("ir", "mod"))]

    def touched(self, w, op):
        return [op["c"]]

    def _tbl(self, w, op):
        return w.m.nodes[op["c"]].a["aux"].get(op["name"])


@register
class AuxNew(AuxBase):
    """{"op":"aux_new","c":container,"name":N,"type":T,"cv":value}"""

    name = "aux_new"

    def ready(self, w, op):
        return _refs_ok(w, op["cv"])

    def run(self, w, op):
        g = w.g
        t = R.parse_type(op["type"])

        def fn():
            v = auxm.to_impl(w, t, op["cv"], node_objects=op.get("node_objects", True))
            if op.get("as_bytes") and op["type"] == "sequence<uint8_t>":
                v = bytes(v) if op["as_bytes"] == "bytes" else bytearray(v)  # a bytes object IS a sequence of uint8
            w.objs[op["c"]].aux_data[op["name"]] = g.AuxData(v, op["type"])

        out = capture(fn)
        out.value = None
        return out

    def model(self, w, op, out):
        w.m.nodes[op["c"]].a["aux"][op["name"]] = table(op["type"], op["cv"])  # a NEW table object under that name
        return Exp("ok", value=None, owner=())


def _refs_ok(w, cv):
    if isinstance(cv, dict):
        if "node" in cv:
            return cv["node"] in w.m.nodes or cv["node"] in w.label_uuid
        return all(_refs_ok(w, v) for v in cv.values())
    if isinstance(cv, list):
        return all(_refs_ok(w, v) for v in cv)
    return True


@register
class AuxRead(AuxBase):
    """{"op":"aux_read","c":container,"name":N}"""

    name = "aux_read"

    def ready(self, w, op):
        tbl = self._tbl(w, op)
        return tbl is not None and tbl["state"] != "bad"

    def run(self, w, op):
        ad = w.objs[op["c"]].aux_data.get(op["name"])
        out = capture(lambda: ad.data)
        out.value = "read" if out.kind == "ok" else None
        return out

    def model(self, w, op, out):
        tbl = self._tbl(w, op)
        lazy = tbl["raw"] is not None and tbl["state"] in ("untouched", "retyped")
        if lazy:
            tbl["decoded_lazily"] = True
            w.counters["probe:aux_lazy_decode"] += 1
        # a read that decodes bytes from a file (whoever wrote them: the format is shared) also
        # speaks for C08: "bytes produced by an independent implementation decode to the same value"
        ov = ("C07", "C01", "C08") if lazy else ("C07", "C01")
        if tbl.get("illparam") and tbl["state"] == "untouched" and tbl["type"] == tbl["type0"]:
            # a leaf codec handed parameters (uint16_t<vendor_ext>): no statement says what a read
            # gives (today DecodeError). The table stays 'untouched': its bytes must survive a save.
            w.counters["probe:aux_read_illparam"] += 1
            return Exp("any")
        if out.kind != "ok":
            return Exp("ok", value="read", owner=ov + ("C14",))
        check_read(w, op["c"], op["name"], tbl, out.raw, ov, ("C07", "C09", "C01"), decoded_now=lazy)
        w.aux_refs[id(tbl)] = (tbl, out.raw)  # keyed by the TABLE: one AuxData object may be listed twice
        if tbl["state"] == "untouched":
            tbl["state"] = "read"
        elif tbl["state"] == "retyped":
            tbl["state"] = "retyped_read"
        return Exp("ok", value="read", owner=("C07", "C01", "C14"))


@register
class AuxMutate(AuxBase):
    """{"op":"aux_mutate","c":container,"name":N,"seed":k}: read, then mutate
    the returned value in place."""

    name = "aux_mutate"

    def ready(self, w, op):
        tbl = self._tbl(w, op)
        if tbl is None or tbl["cv"] is None:
            return False
        t = R.parse_type(tbl["type"])
        if tbl["state"] in ("retyped", "retyped_read", "bad") or R.has_unknown(t):
            return False
        return auxm.has_mutable(t)

    def run(self, w, op):
        ad = w.objs[op["c"]].aux_data.get(op["name"])
        tbl = self._tbl(w, op)
        t = R.parse_type(tbl["type"])

        def fn():
            v = ad.data
            auxm.mutate_in_place(w, op.get("seed", 0), t, v)
            return v

        out = capture(fn)
        out.value = "mutated" if out.kind == "ok" else None
        return out

    def model(self, w, op, out):
        tbl = self._tbl(w, op)
        if out.kind != "ok":
            return Exp("ok", value="mutated", owner=("C07", "C14"))
        t = R.parse_type(tbl["type"])
        # the model adopts the mutated value by reading it back canonically
        try:
            tbl["cv"] = auxm.from_impl(w, t, out.raw)
        except auxm.Uncanonical as e:
            w.violate(("C07", "C14"), "aux:mutate_shape", str(e))
        tbl["state"] = "mutated"
        tbl.pop("decoded_lazily", None)
        w.aux_refs[id(tbl)] = (tbl, out.raw)
        return Exp("ok", value="mutated", owner=("C07", "C14"))


@register
class AuxMutateRef(AuxBase):
    """{"op":"aux_mutate_ref","c":container,"name":N,"seed":k}: mutate, in
    place, the value object an EARLIER read handed out - without touching
    .data again (a caller holding on to the reference across a save)."""

    name = "aux_mutate_ref"

    def ready(self, w, op):
        tbl = self._tbl(w, op)
        if tbl is None or tbl["cv"] is None or id(tbl) not in w.aux_refs:
            return False
        t = R.parse_type(tbl["type"])
        if tbl["state"] not in ("read", "mutated") or R.has_unknown(t):
            return False
        return auxm.has_mutable(t)

    def run(self, w, op):
        tbl = self._tbl(w, op)
        t = R.parse_type(tbl["type"])
        v = w.aux_refs[id(tbl)][1]

        def fn():
            auxm.mutate_in_place(w, op.get("seed", 0), t, v)
            return v

        out = capture(fn)
        out.value = "mutated" if out.kind == "ok" else None
        return out

    def model(self, w, op, out):
        tbl = self._tbl(w, op)
        if out.kind != "ok":
            return Exp("ok", value="mutated", owner=())
        t = R.parse_type(tbl["type"])
        try:
            tbl["cv"] = auxm.from_impl(w, t, out.raw)
        except auxm.Uncanonical as e:
            w.violate((), "aux:mutate_shape", str(e))
        tbl["state"] = "mutated"
        w.counters["probe:aux_mutated_through_kept_reference"] += 1
        return Exp("ok", value="mutated", owner=())


@register
class AuxAssign(AuxBase):
    """{"op":"aux_assign","c":container,"name":N,"cv":value}"""

    name = "aux_assign"

    def ready(self, w, op):
        tbl = self._tbl(w, op)
        return tbl is not None and tbl["state"] != "retyped" and _refs_ok(w, op["cv"]) and not R.has_unknown(R.parse_type(tbl["type"]))

    def run(self, w, op):
        tbl = self._tbl(w, op)
        t = R.parse_type(tbl["type"])
        ad = w.objs[op["c"]].aux_data.get(op["name"])

        def fn():
            v = auxm.to_impl(w, t, op["cv"])
            if op.get("as_bytes") and tbl["type"] == "sequence<uint8_t>":
                v = bytes(v) if op["as_bytes"] == "bytes" else bytearray(v)
            ad.data = v

        out = capture(fn)
        out.value = None
        return out

    def model(self, w, op, out):
        tbl = self._tbl(w, op)
        tbl["cv"] = op["cv"]
        tbl["state"] = "assigned"
        w.aux_refs.pop(id(tbl), None)
        tbl.pop("decoded_lazily", None)
        return Exp("ok", value=None, owner=())


@register
class AuxAssignBad(AuxBase):
    """{"op":"aux_assign_bad","c":container,"name":N,"k":i}: assign a value that is NOT of the
    table's type in its LAST leaf (a sequence whose last element is out of range): encoding
    emits some bytes and then fails. Until a proper value is assigned, saving must fail."""

    name = "aux_assign_bad"

    def ready(self, w, op):
        tbl = self._tbl(w, op)
        if tbl is None or tbl["cv"] is None or tbl["state"] == "retyped":
            return False
        t = R.parse_type(tbl["type"])
        return t[0] == "sequence" and t[1][0][0] in R.INTS and not R.has_unknown(t)

    def run(self, w, op):
        tbl = self._tbl(w, op)
        t = R.parse_type(tbl["type"])
        size, signed = R.INTS[t[1][0][0]]
        bad = (1 << (8 * size)) + 5 if not signed or op.get("k", 0) % 2 else -(1 << (8 * size)) - 5
        ad = w.objs[op["c"]].aux_data.get(op["name"])

        def fn():
            ad.data = [1, 2, 3, bad]

        out = capture(fn)
        out.value = None
        return out

    def model(self, w, op, out):
        tbl = self._tbl(w, op)
        tbl["state"] = "bad"
        tbl["cv"] = [1, 2, 3]
        w.aux_refs.pop(id(tbl), None)
        w.counters["fault:unencodable_value_assigned"] += 1
        return Exp("ok", value=None, owner=())


def retype_value(cv, t0, t1):
    """Value under the new type name, or None if the retyping is not one of
    the compatible ones the workload uses (integer leaves widened at any
    depth; sequence<X> -> set<X> at the top)."""
    if t0 == t1:
        return cv
    if t0[0] == t1[0] and t0[0] in ("sequence", "set", "mapping", "tuple") and len(t0[1]) == len(t1[1]):
        n = t0[0]
        try:
            if n == "sequence":
                out = [retype_value(x, t0[1][0], t1[1][0]) for x in cv]
                return None if any(x is None for x in out) else out
            if n == "set":
                out = [retype_value(x, t0[1][0], t1[1][0]) for x in cv["set"]]
                return None if any(x is None for x in out) else {"set": out}
            if n == "mapping":
                out = [[retype_value(k, t0[1][0], t1[1][0]), retype_value(v, t0[1][1], t1[1][1])] for k, v in cv["map"]]
                return None if any(k is None or v is None for k, v in out) else {"map": out}
            out = [retype_value(x, a, b) for x, a, b in zip(cv["tuple"], t0[1], t1[1])]
            return None if any(x is None for x in out) else {"tuple": out}
        except (TypeError, KeyError):
            return None
    if t0[0] in R.INTS and t1[0] in R.INTS:
        s0, g0 = R.INTS[t0[0]]
        s1, g1 = R.INTS[t1[0]]
        if g0 == g1 and s1 >= s0:
            return cv
        return None
    if t0[0] == "sequence" and t1[0] == "set" and t0[1] == t1[1]:
        d = {}
        for x in cv:
            d[R.key(x)] = x
        return {"set": [d[k] for k in sorted(d)]}
    return None


@register
class AuxRetype(AuxBase):
    """{"op":"aux_retype","c":container,"name":N,"type":T2}"""

    name = "aux_retype"

    def ready(self, w, op):
        tbl = self._tbl(w, op)
        if tbl is None or tbl["cv"] is None or tbl["state"] == "bad":
            return False
        t0, t1 = R.parse_type(tbl["type"]), R.parse_type(op["type"])
        if t0[0] == "sequence" and t1[0] == "set" and (auxm.unhashable_position(t1) or _f32_nan(t1) or _has_double(t1)):
            # floats as set elements: 0.0 == -0.0 and NaN != NaN make "the same value" ill-defined
            return False
        return retype_value(tbl["cv"], t0, t1) is not None

    def run(self, w, op):
        ad = w.objs[op["c"]].aux_data.get(op["name"])

        def fn():
            ad.type_name = op["type"]

        out = capture(fn)
        out.value = None
        return out

    def model(self, w, op, out):
        tbl = self._tbl(w, op)
        t0, t1 = R.parse_type(tbl["type"]), R.parse_type(op["type"])
        if tbl["state"] == "untouched" and "pre_cv" not in tbl:
            tbl["pre_cv"] = tbl["cv"]
        tbl["cv"] = retype_value(tbl["cv"], t0, t1)
        tbl["type"] = op["type"]
        if tbl["state"] == "untouched" and tbl["type"] != tbl["type0"]:
            tbl["state"] = "retyped"
        elif tbl["state"] == "retyped" and tbl["type"] == tbl["type0"]:
            tbl["state"] = "untouched"
        return Exp("ok", value=None, owner=())


@register
class AuxDel(AuxBase):
    name = "aux_del"

    def ready(self, w, op):
        return self._tbl(w, op) is not None

    def run(self, w, op):
        def fn():
            del w.objs[op["c"]].aux_data[op["name"]]

        out = capture(fn)
        out.value = None
        return out

    def model(self, w, op, out):
        w.m.nodes[op["c"]].a["aux"].pop(op["name"], None)  # (the table may live on under another name)
        return Exp("ok", value=None, owner=())


@register
class AuxAlias(AuxBase):
    """{"op":"aux_alias","c":C1,"name":N1,"to":C2,"name2":N2}: the SAME AuxData object is put into
    a second container (or under a second name): `c2.aux_data[n2] = c1.aux_data[n1]`. Whatever
    is done through one entry is seen through the other; each save writes it wherever it is
    listed; after a load the two entries are separate tables again."""

    name = "aux_alias"

    def labels(self, op):
        return [(op["c"], ("ir", "mod")), (op["to"], ("ir", "mod"))]

    def touched(self, w, op):
        return [op["c"], op["to"]]

    def ready(self, w, op):
        return self._tbl(w, op) is not None and not (op["c"] == op["to"] and op["name"] == op["name2"])

    def run(self, w, op):
        def fn():
            w.objs[op["to"]].aux_data[op["name2"]] = w.objs[op["c"]].aux_data[op["name"]]

        out = capture(fn)
        out.value = None
        return out

    def model(self, w, op, out):
        w.m.nodes[op["to"]].a["aux"][op["name2"]] = w.m.nodes[op["c"]].a["aux"][op["name"]]  # the same table, not a copy
        w.counters["probe:aux_table_aliased"] += 1
        return Exp("ok", value=None, owner=())


# ---------------------------------------------------------------------------
# generators


def widen_some_leaf(r, t):
    """Type tree with one integer leaf widened (same signedness), or None."""
    n, subs = t
    if n in R.INTS and n != "Addr":
        size, signed = R.INTS[n]
        wider = [k for k, (s_, g) in R.INTS.items() if g == signed and s_ > size and k != "Addr"]
        return (r.choice(wider), []) if wider else None
    if n in ("sequence", "set", "mapping", "tuple") and subs:
        idx = list(range(len(subs)))
        r.shuffle(idx)
        for i in idx:
            x = widen_some_leaf(r, subs[i])
            if x is not None:
                return (n, subs[:i] + [x] + subs[i + 1 :])
    return None


def _cv_nodes(cv, acc):
    if isinstance(cv, dict):
        if "node" in cv:
            acc.append(cv["node"])
        else:
            for v in cv.values():
                _cv_nodes(v, acc)
    elif isinstance(cv, list):
        for v in cv:
            _cv_nodes(v, acc)
    return acc


def _ref_flip(w, r, c, name, tbl, tables):
    """Decode time relative to attach / detach: this table is about to be decoded lazily; if a
    sibling table that is still undecoded names one of the same nodes, queue 'that node leaves
    (or re-joins) its parent' and the read of the sibling. Model only."""
    if tbl.get("raw") is None or tbl["state"] != "untouched" or tbl.get("cv") is None or r.random() > 0.4:
        return None
    mine = set(_cv_nodes(tbl["cv"], []))
    if not mine:
        return None
    sibs = []
    for n2 in sorted(tables):
        t2 = tables[n2]
        if n2 != name and t2.get("raw") is not None and t2["state"] == "untouched" and t2.get("cv") is not None:
            common = sorted(mine & set(_cv_nodes(t2["cv"], [])))
            common = [l for l in common if l in w.m.nodes and w.m.nodes[l].kind != "ir"]
            if common:
                sibs.append((n2, common))
    if not sibs:
        return None
    n2, common = sibs[r.randrange(len(sibs))]
    x = common[r.randrange(len(common))]
    node = w.m.nodes[x]
    if node.parent is not None:
        step = {"op": "setparent", "child": x, "parent": None}
    else:
        from .world import PARENT_OF

        ps = w.m.by_kind(PARENT_OF[node.kind][0]) if node.kind in PARENT_OF else []
        if not ps:
            return None
        step = {"op": "setparent", "child": x, "parent": ps[r.randrange(len(ps))]}
    w.counters["probe:gen_ref_flip"] += 1
    return [step, {"op": "aux_read", "c": c, "name": n2}]


def _pre_read_change(w, r, c, name, tbl):
    """The FIRST read of a loaded table falls after the structure changed: a named node has
    left, or the whole module list of the loading IR was emptied (clear / slice deletion /
    pop) in one call. Model only; the read itself is queued behind the returned operation."""
    if tbl.get("raw") is None or tbl["state"] != "untouched" or tbl.get("cv") is None or r.random() > 0.12:
        return None
    named = [l for l in sorted(set(_cv_nodes(tbl["cv"], []))) if l in w.m.nodes and w.m.nodes[l].kind != "ir"]
    if not named:
        return None
    home = tbl.get("home")
    if home in w.m.nodes and w.m.nodes[home].kind == "ir" and w.m.nodes[home].a["modules"] and r.random() < 0.5:
        meth = r.choice(["clear", "clear", "delslice", "pop"])
        w.counters["probe:gen_pre_read_module_list_emptied"] += 1
        if meth == "delslice":
            return {"op": "listop", "ir": home, "method": "delslice", "args": [[None, None, None]]}
        return {"op": "listop", "ir": home, "method": meth, "args": []}
    x = named[r.randrange(len(named))]
    if w.m.nodes[x].parent is None:
        return None
    w.counters["probe:gen_pre_read_detach"] += 1
    return {"op": "setparent", "child": x, "parent": None}


def gen_aux(w, r, allow_unknown=False):
    m = w.m
    cs = m.by_kind("ir", "mod")
    if not cs:
        return None
    c = cs[r.randrange(len(cs))]
    tables = m.nodes[c].a["aux"]
    x = r.random()
    if not tables or x < 0.3:
        if len(tables) >= w.cfg.get("max_aux", 6):
            return None
        name = "t%d" % r.randrange(0, 8)
        y = r.random()
        allt = [(c2, n2) for c2 in cs for n2, t2 in m.nodes[c2].a["aux"].items() if t2["cv"] is not None and not R.has_unknown(R.parse_type(t2["type"])) and t2["state"] != "bad"]
        if y < 0.2 and allt:
            # a second table with the same type and value (byte-identical once saved)
            c2, n2 = allt[r.randrange(len(allt))]
            t2 = m.nodes[c2].a["aux"][n2]
            import copy

            return {"op": "aux_new", "c": c, "name": name, "type": t2["type"], "cv": copy.deepcopy(t2["cv"]), "node_objects": True}
        if y < 0.35 and w.cfg.get("aux_unordered", True):
            # tables that are mostly node references, drawn from a small pool of nodes
            tn = r.choice(["sequence<UUID>", "set<UUID>", "mapping<UUID,uint64_t>", "mapping<Offset,string>", "sequence<Offset>", "mapping<string,set<UUID>>", "tuple<UUID,sequence<UUID>>"])
            t = R.parse_type(tn)
            return {"op": "aux_new", "c": c, "name": name, "type": tn, "cv": auxm.gen_value(w, r, t), "node_objects": r.random() < 0.7}
        if y < 0.45:
            # an integer sequence (can be widened, extended, or spoilt with an out-of-range element)
            tn = "sequence<%s>" % r.choice(["uint8_t", "uint8_t", "int8_t", "uint16_t", "int32_t", "uint64_t"])
            t = R.parse_type(tn)
            op = {"op": "aux_new", "c": c, "name": name, "type": tn, "cv": auxm.gen_value(w, r, t)}
            if tn == "sequence<uint8_t>" and r.random() < 0.5:
                op["as_bytes"] = r.choice(["bytes", "bytearray"])
            return op
        t = auxm.gen_type(r, depth=w.cfg.get("aux_depth", 3), allow_variant=w.cfg.get("aux_variant", True), allow_unordered=w.cfg.get("aux_unordered", True))
        return {"op": "aux_new", "c": c, "name": name, "type": R.type_str(t), "cv": auxm.gen_value(w, r, t), "node_objects": r.random() < 0.7}
    name = sorted(tables)[r.randrange(len(tables))]
    tbl = tables[name]
    if r.random() < w.cfg.get("p_aux_alias", 0.03) and tbl["state"] != "bad":
        c2 = cs[r.randrange(len(cs))]
        return {"op": "aux_alias", "c": c, "name": name, "to": c2, "name2": "t%d" % r.randrange(0, 8)}
    if x < 0.55:
        pre = _pre_read_change(w, r, c, name, tbl)
        if pre:
            w.queue.append({"op": "aux_read", "c": c, "name": name})
            return pre
        flip = _ref_flip(w, r, c, name, tbl, tables)
        if flip:
            w.queue.extend(flip)
        return {"op": "aux_read", "c": c, "name": name}
    if x < 0.7:
        return {"op": "aux_mutate" if r.random() < 0.6 else "aux_mutate_ref", "c": c, "name": name, "seed": r.randrange(4)}
    if x < 0.85:
        if tbl["cv"] is None:
            return None
        t = R.parse_type(tbl["type"])
        if R.has_unknown(t):
            return None
        if r.random() < w.cfg.get("p_bad_aux", 0.0):
            return {"op": "aux_assign_bad", "c": c, "name": name, "k": r.randrange(2)}
        op = {"op": "aux_assign", "c": c, "name": name, "cv": auxm.gen_value(w, r, t)}
        if tbl["type"] == "sequence<uint8_t>" and r.random() < 0.5:
            op["as_bytes"] = r.choice(["bytes", "bytearray"])
        return op
    if x < 0.95:
        t = R.parse_type(tbl["type"])
        if ("Addr" in tbl["type"] or "uint64_t" in tbl["type"]) and r.random() < 0.5:
            # another NAME for the same encoding (Addr and uint64_t share a codec)
            swapped = tbl["type"].replace("Addr", "\0").replace("uint64_t", "Addr").replace("\0", "uint64_t")
            return {"op": "aux_retype", "c": c, "name": name, "type": swapped}
        wt = widen_some_leaf(r, t)
        if wt is not None and r.random() < 0.7:
            return {"op": "aux_retype", "c": c, "name": name, "type": R.type_str(wt)}
        if t[0] == "sequence":
            return {"op": "aux_retype", "c": c, "name": name, "type": R.type_str(("set", t[1]))}
        if tbl["type0"] and r.random() < 0.5:
            return {"op": "aux_retype", "c": c, "name": name, "type": tbl["type0"]}
        return {"op": "aux_retype", "c": c, "name": name, "type": tbl["type"]}
    return {"op": "aux_del", "c": c, "name": name}


@register
class ForeignSerializer(Op):
    """{"op":"foreign_serializer","name":codec name,"k":i}: ANOTHER client in the same process
    creates its own gtirb.Serialization() and customises it (the documented extension point):
    overrides a built-in codec name with a lossy codec, or registers a new name. Nothing that
    goes through gtirb.AuxData.serializer may notice."""

    name = "foreign_serializer"
    family = "aux"

    def run(self, w, op):
        g = w.g
        ser = g.serialization

        class Lossy(ser.Codec):
            @staticmethod
            def decode(raw_bytes, *, serialization=None, subtypes=(), get_by_uuid=None):
                raw_bytes.read()
                return "lossy"

            @staticmethod
            def encode(out, val, *, serialization=None, subtypes=()):
                out.write(b"?")

        def fn():
            s = g.Serialization()
            s.codecs[op["name"]] = Lossy
            return None

        out = capture(fn)
        out.value = None
        return out

    def model(self, w, op, out):
        w.counters["probe:foreign_serializer_customised"] += 1
        return Exp("ok", value=None, owner=())


@register
class Repr(Op):
    """{"op":"repr","label":L}: print / log a node. Observation only: nothing may change
    (in particular no AuxData table of an IR or Module may count as read afterwards)."""

    name = "repr"
    family = "observe"

    def labels(self, op):
        return [(op["label"], None)]

    def touched(self, w, op):
        return []

    def run(self, w, op):
        o = w.objs[op["label"]]
        out = capture(lambda: (repr(o), str(o)))
        if out.kind == "ok":
            out.value = "text"
        return out

    def model(self, w, op, out):
        w.counters["probe:repr_calls"] += 1
        return Exp("ok", value="text", owner=())
