"""C12: deferred index maintenance is unobservable.

One edit history H is executed in lockstep on k identical worlds that differ
ONLY in where the scheduler places additional lookups: world 0 none before the
end, world 1 a battery after every step, worlds 2.. scheduler-drawn placements
(sparse, and bursts aimed - using the harness's own count of index-affecting
edits per container since that world's last lookup there - at pending < size,
== size, > size). After H one fixed battery of lookups is issued in every
world; all answers must be pairwise equal.
"""
import hashlib
import random
import traceback

from . import gen_index, gen_own
from .core import Diverged, Seams, Streams, Violation, WatchdogTimeout
from .ops import OPS, labels_exist
from .ops import execute_strict as execute
from .ops_index import METHODS, PROP_OF, canon_answer, mk_query
from .profiles import INDEX_BASE, IndexProfile, profile, swarm_weights
from .sim import RunResult
from .world import World


def _rng(*parts):
    h = hashlib.sha256("/".join(str(p) for p in parts).encode()).digest()
    return random.Random(int.from_bytes(h[:16], "big"))


def battery(m):
    """Fixed final battery derived from the final model state only."""
    out = []
    for l, n in m.nodes.items():
        if n.kind not in METHODS:
            continue
        # coordinate grid for this scope
        cs = {0, 1}
        bis = [l] if n.kind == "bi" else [x for x in m.subtree(l) if m.nodes[x].kind == "bi"]
        offs = {0}
        for bl in bis:
            b = m.nodes[bl]
            A = b.a["address"]
            for kl in m.kids(bl, "blocks"):
                k = m.nodes[kl]
                offs |= {k.a["offset"], k.a["offset"] + k.a["size"]}
                if A is not None:
                    cs |= {A + k.a["offset"], A + k.a["offset"] + k.a["size"]}
            for off in b.a["se"]:
                offs.add(off)
                if A is not None:
                    cs.add(A + off)
            if A is not None:
                cs |= {A, A + b.a["size"]}
        cs = sorted(cs)[:14]
        offs = sorted(offs)[:10]
        lo, hi = (min(cs), max(cs) + 1)
        for meth in METHODS[n.kind]:
            if meth in ("address", "size"):
                out.append({"op": "lookup", "scope": l, "method": meth, "q": None})
                continue
            pts = offs if meth.endswith("_offset") else cs
            for c in pts[:: max(1, len(pts) // 5)]:
                out.append({"op": "lookup", "scope": l, "method": meth, "q": c})
                out.append({"op": "lookup", "scope": l, "method": meth, "q": c - 1})
            plo, phi = (min(pts), max(pts) + 1)
            out.append({"op": "lookup", "scope": l, "method": meth, "q": [plo, phi, 1]})
            out.append({"op": "lookup", "scope": l, "method": meth, "q": [plo, phi, 3]})
            # "any lookup": a descending range is outside C05/C06/C13 (no scan judges it), but its
            # answer must not depend on earlier lookups either
            out.append({"op": "lookup", "scope": l, "method": meth, "q": [phi, plo - 1, -1]})
            out.append({"op": "lookup", "scope": l, "method": meth, "q": [phi, plo - 1, -2]})
    return out


INDEX_EDIT = ("setattr", "setparent", "setop", "new", "listop")


@profile
class C12(IndexProfile):
    prop = "C12"
    name = "index2"
    chunk = 10
    runs_quick = 1200
    runs_thorough = 40000
    rule = (
        "one evaluation = one edit history replayed in lockstep on k=3..5 identical worlds under different lookup "
        "schedules (none / every step / sparse / bursts aimed at pending <,==,> collection size); at the end one fixed "
        "battery of lookups (all C05/C06/C13 lookups and Section.address/size on a grid from the final model state) is "
        "issued in every world and all answers must be pairwise equal. Non-trivial: the k schedules of the run drove "
        "LazyIntervalTree.get through >=2 different branch sequences; distinct by (history hash, schedule hash)."
    )

    def config(self, r):
        c = super().config(r)
        c["steps"] = r.randrange(30, 80)
        c["k"] = r.choice([3, 3, 4, 5])
        c["schedules"] = ["none", "every"] + [r.choice(["sparse", "burst<", "burst=", "burst>", "burst="]) for _ in range(c["k"] - 2)]
        c["lookup_mode"] = "none"
        c["p_lookup"] = 0.0
        c["judge_scan"] = False
        # pop()'s choice is re-seeded per edit (see run), other ops as usual
        return c

    # -- harness-side count of index-affecting edits per container ---------
    def _note_edit(self, w, op):
        m = w.m
        touched = []
        if op["op"] == "setattr":
            n = m.nodes.get(op["label"])
            if n is not None and op["attr"] in ("offset", "size") and n.kind in ("cb", "db") and n.parent:
                touched.append((n.parent, 2))
            if n is not None and op["attr"] in ("address", "size") and n.kind == "bi" and n.parent:
                touched.append((n.parent, 2))
        elif op["op"] in ("setparent", "setop", "new"):
            for l in OPS[op["op"]].touched(w, op):
                n = m.nodes.get(l)
                if n is not None and n.kind in ("bi", "sec"):
                    touched.append((l, 1))
        for l, k in touched:
            w.pending[l] = w.pending.get(l, 0) + k

    def _container_size(self, w, l):
        n = w.m.nodes.get(l)
        if n is None:
            return 0
        return len(w.m.kids(l, "blocks" if n.kind == "bi" else "byte_intervals"))

    def _gen_lookups(self, w, j, i, sched, rl):
        """Lookups the scheduler places in world j after edit i."""
        out = []
        if sched == "none":
            return out
        if sched == "every":
            n = rl.randrange(1, 4)
        elif sched == "sparse":
            n = 1 if rl.random() < 0.12 else 0
        else:
            # burst aimed at a pending/size relation on some container
            rel = sched[-1]
            n = 0
            for l, p in sorted(w.pending.items()):
                size = self._container_size(w, l)
                if p == 0 or l not in w.m.nodes:
                    continue
                hit = (rel == "<" and 0 < p < size) or (rel == "=" and p == size) or (rel == ">" and p > size)
                if hit and rl.random() < 0.5:
                    kind = w.m.nodes[l].kind
                    scopes = [l]
                    op = gen_index.gen_lookup(w, rl, scopes=(kind,))
                    # aim at this very container
                    if op is not None:
                        op["scope"] = l
                        if op["method"] not in METHODS[kind]:
                            op["method"] = rl.choice(METHODS[kind])
                        if op["method"] in ("address", "size"):
                            op["q"] = None
                        elif op.get("q") is None:
                            op["q"] = 0
                        out.append(op)
                        w.counters["probe:aimed_" + {"<": "lt", "=": "eq", ">": "gt"}[rel]] += 1
            return out
        for _ in range(n):
            op = gen_index.gen_lookup(w, rl)
            if op is not None:
                out.append(op)
        return out

    def _after_lookup(self, w, op):
        # a lookup flushes the pending events of the containers it consults
        m = w.m
        s = op["scope"]
        if s not in m.nodes:
            return
        for l in m.subtree(s):
            if l in w.pending:
                w.pending[l] = 0

    def run(self, ctx, seed, run, ops=None, cfg=None):
        res = RunResult()
        res.seed, res.run = seed, run
        rs0 = Streams(seed, run)
        if cfg is None:
            cfg = self.config(rs0.config)
        res.cfg = cfg
        k = cfg["k"]
        worlds = []
        for j in range(k):
            ctx.seams.bind(Streams(seed, run), cfg.get("order_mode", "sorted"))
            wj = World(ctx.g, ctx.seams, Streams(seed, run), dict(cfg, world_index=j), self.prop)
            wj.pending = {}
            wj.uuid_rng = ctx.seams.uuid_rng
            wj.branch_seq = []
            self.begin(wj)
            worlds.append(wj)
        replay = ops is not None
        combined = list(ops) if replay else []
        kinds = []
        seams = ctx.seams
        cur = [None]

        def enter(wj, tag):
            seams.uuid_rng = wj.uuid_rng
            seams.order_rng = _rng(seed, run, "order", tag)
            seams.branch_seq = wj.branch_seq
            cur[0] = wj

        def run_edit(i, op):
            hashes = []
            for j, wj in enumerate(worlds):
                wj.step = i
                enter(wj, "E%d" % i)
                self._note_edit(wj, op)
                execute(wj, op)
                hashes.append(wj.m.state_hash())
            if len(set(hashes)) != 1:
                raise Diverged("worlds' models differ after edit %d" % i)

        def run_lookup(i, op):
            for j in op["worlds"]:
                if j >= len(worlds):
                    continue
                wj = worlds[j]
                wj.step = i
                enter(wj, "L%d/%d" % (i, j))
                o = dict(op)
                out = execute(wj, o)
                self._after_lookup(wj, op)

        try:
            try:
                if replay:
                    for i, op in enumerate(combined):
                        kinds.append(op["op"])
                        if op["op"] == "lookup" and "worlds" in op:
                            run_lookup(i, op)
                        else:
                            run_edit(i, op)
                        res.steps += 1
                else:
                    w0 = worlds[0]
                    rls = [_rng(seed, run, "lookups", j) for j in range(k)]
                    step = misses = 0
                    while step < cfg["steps"]:
                        enter(w0, "G")
                        with seams.observing():
                            op = IndexProfile.gen(self, w0)
                        if op is None:
                            misses += 1
                            if misses > 500:
                                break
                            continue
                        i = len(combined)
                        combined.append(op)
                        kinds.append(op["op"])
                        run_edit(i, op)
                        res.steps += 1
                        step += 1
                        for j in range(1, k):
                            wj = worlds[j]
                            with seams.observing():
                                lks = self._gen_lookups(wj, j, i, cfg["schedules"][j], rls[j])
                            for n, lk in enumerate(lks):
                                d = OPS["lookup"]
                                lk["worlds"] = [j]
                                if not (labels_exist(wj, lk, d) and d.ready(wj, lk)):
                                    continue
                                i2 = len(combined)
                                combined.append(lk)
                                kinds.append("lookup")
                                run_lookup(i2, lk)
                                res.steps += 1
                # final battery, identical in every world
                bat = battery(worlds[0].m)
                answers = []
                for j, wj in enumerate(worlds):
                    wj.step = len(combined)
                    ans = []
                    for n, lk in enumerate(bat):
                        enter(wj, "B%d" % n)
                        out = execute(wj, dict(lk))
                        ans.append(out.canon() if out is not None else None)
                    answers.append(ans)
                    wj.counters["probe:battery_lookups"] += len(bat)
                for j in range(1, k):
                    for n, lk in enumerate(bat):
                        if answers[j][n] != answers[0][n]:
                            worlds[0].violate(
                                ("C12",),
                                "schedule:final_answers_differ",
                                "after the same %d edits, %s.%s(%r) = %r with no earlier lookup but %r under schedule %r (world %d)"
                                % (sum(1 for o in combined if "worlds" not in o), lk["scope"], lk["method"], lk["q"], answers[0][n], answers[j][n], cfg["schedules"][j], j),
                            )
            except WatchdogTimeout:
                worlds[0].violate((), "timeout", "watchdog")
        except Violation as v:
            res.violation = {"prop": v.prop, "check": v.check, "detail": v.detail[:2000], "step": (cur[0].step if cur[0] else 0)}
        except Diverged as d:
            res.aborted = str(d)[:300]
        except WatchdogTimeout:
            res.aborted = "timeout"
        except Exception:
            res.harness_error = traceback.format_exc()[-3000:]
        finally:
            ctx.seams.bind(None, "sorted")
        res.ops = combined
        h = hashlib.sha256()
        for wj in worlds:
            wj.event({"end": True})
            h.update(wj.log.digest().encode())
        res.digest = h.hexdigest()
        from collections import Counter

        tot = Counter()
        for wj in worlds:
            tot.update(wj.counters)
        seqs = ["".join(wj.branch_seq) for wj in worlds]
        for wj in worlds:
            for b in wj.branch_seq:
                tot["branch:" + {"b": "build", "c": "clean", "r": "rebuild", "i": "incremental"}.get(b, b)] += 1
        res.counters = dict(tot)
        res.nontrivial = len(set(seqs)) >= 2
        edits = [o for o in combined if "worlds" not in o]
        hh = hashlib.sha256(repr([(o["op"], o.get("method"), o.get("attr")) for o in edits]).encode()).hexdigest()[:12]
        sh = hashlib.sha256(repr([(i, tuple(o["worlds"])) for i, o in enumerate(combined) if "worlds" in o]).encode()).hexdigest()[:12]
        res.kind_seq_hash = hh + ":" + sh
        res.state_hash = worlds[0].m.state_hash()
        res.tail = list(worlds[0].log.tail[-6:])
        ctx.seams.iter_calls = ctx.seams.permuted_calls = 0
        return res

    def extra_coverage(self, results, tot):
        d = IndexProfile.extra_coverage(self, results, tot)
        d["distinct_history_schedule_pairs"] = len({r["kind_seq_hash"] for r in results})
        d["worlds_per_run"] = "3-5"
        return d
