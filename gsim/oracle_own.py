"""Oracles over ownership: C03 (UUID table == reachable set), C04 (forest
consistent from both ends, derived accessors, bystanders untouched) and the
model comparison used by C04/C16/C01.

All run with the order seam in observing mode; all scan the live structure
through public API only.
"""
import uuid as _uuid

from .observe import diff_views, live_view, model_view
from .world import FIELDS, PARENT_OF


def live_irs(w):
    return [(l, w.objs[l]) for l in w.m.by_kind("ir") if l in w.objs]


def inv_c03(w, probe_rng_bits=None):
    """For every IR and every UUID the world has ever seen (plus a fresh one):
    get_by_uuid(u) is the reachable node with that UUID, else None."""
    probes = list(w.seen_uuids)
    extra = (w.step * 0x9E3779B97F4A7C15 + 12345) % (2**128)
    probes.append(extra)
    n_hits = 0
    for il, ir in live_irs(w):
        reach = {}
        for n in w.live_walk(ir):
            u = n.uuid.int
            if u in reach and reach[u] is not n:
                # two attached nodes under one UUID: outside the statement's
                # precondition unless the generator guarantees distinctness,
                # which it does -> the structure itself is wrong
                w.violate(("C03", "C04"), "c03:dup_uuid_attached", "%s: nodes %s and %s share UUID" % (il, w.L(reach[u]), w.L(n)))
            reach[u] = n
        for u in probes:
            got = ir.get_by_uuid(_uuid.UUID(int=u))
            want = reach.get(u)
            if got is not want:
                w.violate(
                    ("C03",),
                    "c03:table",
                    "%s.get_by_uuid(uuid of %s) = %s, reachable node: %s"
                    % (il, _who(w, u), w.L(got), w.L(want)),
                )
            if want is not None:
                n_hits += 1
    w.counters["c03:probes"] += len(probes)
    return n_hits


def _who(w, u):
    for n in w.m.nodes.values():
        if n.uuid == u:
            return n.label
    return "unattached/unknown %032x" % u


AGG = {
    # accessor on IR / module / section -> kinds it must enumerate
    "ir": {
        "proxy_blocks": ("px",),
        "sections": ("sec",),
        "symbols": ("sym",),
        "byte_intervals": ("bi",),
        "byte_blocks": ("cb", "db"),
        "code_blocks": ("cb",),
        "data_blocks": ("db",),
        "cfg_nodes": ("cb", "px"),
    },
    "mod": {
        "byte_intervals": ("bi",),
        "byte_blocks": ("cb", "db"),
        "code_blocks": ("cb",),
        "data_blocks": ("db",),
        "cfg_nodes": ("cb", "px"),
    },
    "sec": {"byte_blocks": ("cb", "db"), "code_blocks": ("cb",), "data_blocks": ("db",)},
}


DERIVED = {
    "cb": (("section", "sec"), ("module", "mod"), ("ir", "ir")),
    "db": (("section", "sec"), ("module", "mod"), ("ir", "ir")),
    "bi": (("module", "mod"), ("ir", "ir")),
    "sec": (("ir", "ir"),),
    "sym": (("ir", "ir"),),
    "px": (("ir", "ir"),),
    "mod": (),
}


def inv_c04(w):
    """Forest invariants on the live structure, from both ends."""
    g = w.g
    owners = {}  # id(child) -> (parent label, field)
    for pl, pn in list(w.m.nodes.items()):
        if pn.kind not in FIELDS or pl not in w.objs:
            continue
        P = w.objs[pl]
        for field, kinds in FIELDS[pn.kind].items():
            coll = getattr(P, field)
            items = list(coll)
            if len(items) != len(coll):
                w.violate(("C04",), "c04:len", "%s.%s: len %d but iterates %d" % (pl, field, len(coll), len(items)))
            seen = set()
            for c in items:
                cl = w.L(c)
                if id(c) in seen:
                    w.violate(("C04",), "c04:twice", "%s appears twice in %s.%s" % (cl, pl, field))
                seen.add(id(c))
                ck = w.kind_of_obj(c)
                if ck not in kinds:
                    w.violate(("C04",), "c04:kind", "%s (%s) in %s.%s" % (cl, type(c).__name__, pl, field))
                back = getattr(c, PARENT_OF[ck][2])
                if back is not P:
                    w.violate(("C04",), "c04:backptr", "%s is in %s.%s but its %s is %s" % (cl, pl, field, PARENT_OF[ck][2], w.L(back)))
                if id(c) in owners:
                    w.violate(("C04",), "c04:two_parents", "%s in %s.%s and in %s.%s" % (cl, pl, field, owners[id(c)][0], owners[id(c)][1]))
                owners[id(c)] = (pl, field)
                if c not in coll:
                    w.violate(("C04",), "c04:contains", "%s iterated from %s.%s but 'in' is False" % (cl, pl, field))
    # from the child end
    for cl, cn in list(w.m.nodes.items()):
        if cn.kind == "ir" or cl not in w.objs:
            continue
        c = w.objs[cl]
        pk, field, attr = PARENT_OF[cn.kind]
        P = getattr(c, attr)
        if P is None:
            if id(c) in owners:
                w.violate(("C04",), "c04:orphan_listed", "%s.%s is None but %s.%s lists it" % (cl, attr, owners[id(c)][0], owners[id(c)][1]))
        else:
            if owners.get(id(c), (None,))[0] != w.L(P):
                w.violate(("C04",), "c04:unlisted", "%s.%s is %s which does not list it" % (cl, attr, w.L(P)))
        # derived accessors: follow the direct parent attributes upward
        chain = {}
        cur, k = c, cn.kind
        while cur is not None and k != "ir":
            pk2, f2, a2 = PARENT_OF[k]
            cur = getattr(cur, a2)
            chain[pk2] = cur
            k = pk2
        for acc, kk in DERIVED[cn.kind]:
            want = chain.get(kk)
            got = getattr(c, acc)
            if got is not want:
                w.violate(("C04",), "c04:derived", "%s.%s is %s, chain of parents gives %s" % (cl, acc, w.L(got), w.L(want)))
    # aggregate iterators
    for pl, pn in list(w.m.nodes.items()):
        if pn.kind not in AGG or pl not in w.objs:
            continue
        P = w.objs[pl]
        implied = _implied(w, P, pn.kind)
        for acc, kinds in AGG[pn.kind].items():
            got = sorted(w.L(x) for x in getattr(P, acc))
            want = sorted(l for l, k in implied if k in kinds)
            if got != want:
                w.violate(("C04",), "c04:aggregate", "%s.%s = %s, forest implies %s" % (pl, acc, got, want))


def _implied(w, P, kind):
    """[(label, kind)] of all descendants of P by walking the collections."""
    out = []

    def rec(o, k):
        for field, kinds in FIELDS.get(k, {}).items():
            for c in getattr(o, field):
                ck = w.kind_of_obj(c)
                out.append((w.L(c), ck))
                rec(c, ck)

    rec(P, kind)
    return out


def compare_model(w, touched, owner_touched, owner_others=("C04",), labels=None):
    """Every labeled live node shows exactly what the model says. A difference
    on a node the operation did not name is charged to owner_others (C04:
    bystanders are unaffected); on a named node to owner_touched."""
    touched = set(touched or ())
    for l in labels if labels is not None else list(w.m.nodes):
        n = w.m.nodes.get(l)
        o = w.objs.get(l)
        if n is None or o is None:
            continue
        lv = live_view(w, o, n.kind)
        mv = model_view(w.m, n)
        if lv != mv:
            d = diff_views(lv, mv)
            owner = owner_touched if l in touched else owner_others
            w.violate(owner, "model:%s" % ("named" if l in touched else "bystander"), "%s: %s" % (l, "; ".join(d)))
