"""Scratch: minimal proto3 parser -> FileDescriptorProto -> *_pb2.py"""
import re, sys, os
from google.protobuf import descriptor_pb2 as D

SCALARS = {n: getattr(D.FieldDescriptorProto, 'TYPE_' + n.upper()) for n in
           ['double','float','int32','int64','uint32','uint64','sint32','sint64','fixed32','fixed64','sfixed32','sfixed64','bool','string','bytes']}

def tokenize(src):
    src = re.sub(r'//[^\n]*', '', src)
    src = re.sub(r'/\*.*?\*/', '', src, flags=re.S)
    return re.findall(r'"[^"]*"|[A-Za-z_][A-Za-z0-9_.]*|-?\d+|[{}=;<>,\[\]()]', src)

def parse(path, prefix):
    toks = tokenize(open(path).read()); i = 0
    fd = D.FileDescriptorProto(); fd.name = prefix + os.path.basename(path); fd.syntax = 'proto3'
    def peek(): return toks[i]
    def nxt():
        nonlocal i; t = toks[i]; i += 1; return t
    def expect(t):
        x = nxt(); assert x == t, (x, t, path, toks[max(0,i-5):i+5])
    def skip_stmt():
        while nxt() != ';': pass
    def parse_enum(e):
        e.name = nxt(); expect('{')
        while peek() != '}':
            if peek() in ('option','reserved'): skip_stmt(); continue
            if peek() == ';': nxt(); continue
            v = e.value.add(); v.name = nxt(); expect('='); v.number = int(nxt())
            if peek() == '[': 
                while nxt() != ']': pass
            expect(';')
        expect('}')
    def cap(n): return ''.join(p.capitalize() for p in n.split('_'))
    def parse_field(m, oneof_index=None):
        label = D.FieldDescriptorProto.LABEL_OPTIONAL
        if peek() == 'repeated': nxt(); label = D.FieldDescriptorProto.LABEL_REPEATED
        elif peek() == 'optional': nxt()
        if peek() == 'map':
            nxt(); expect('<'); kt = nxt(); expect(','); vt = nxt(); expect('>')
            name = nxt(); expect('='); num = int(nxt()); expect(';')
            entry = m.nested_type.add(); entry.name = cap(name) + 'Entry'; entry.options.map_entry = True
            for fname, t, n in (('key', kt, 1), ('value', vt, 2)):
                f = entry.field.add(); f.name = fname; f.number = n; f.label = D.FieldDescriptorProto.LABEL_OPTIONAL; f.json_name = fname
                set_type(f, t)
            f = m.field.add(); f.name = name; f.number = num; f.label = D.FieldDescriptorProto.LABEL_REPEATED
            f.type = D.FieldDescriptorProto.TYPE_MESSAGE; f.type_name = '@NESTED@' + entry.name
            return
        t = nxt(); name = nxt(); expect('='); num = int(nxt())
        if peek() == '[':
            while nxt() != ']': pass
        expect(';')
        f = m.field.add(); f.name = name; f.number = num; f.label = label
        set_type(f, t)
        if oneof_index is not None: f.oneof_index = oneof_index
    def set_type(f, t):
        if t in SCALARS: f.type = SCALARS[t]
        else: f.type_name = '@REF@' + t
    def parse_message(m):
        m.name = nxt(); expect('{')
        while peek() != '}':
            t = peek()
            if t == 'reserved':
                nxt()
                while True:
                    x = nxt()
                    if x.startswith('"'): m.reserved_name.append(x.strip('"'))
                    else:
                        lo = int(x); hi = lo
                        if peek() == 'to': nxt(); hi = int(nxt())
                        r = m.reserved_range.add(); r.start = lo; r.end = hi + 1
                    if nxt() == ';': break
            elif t == 'option': skip_stmt()
            elif t == 'enum': nxt(); parse_enum(m.enum_type.add())
            elif t == 'message': nxt(); parse_message(m.nested_type.add())
            elif t == 'oneof':
                nxt(); o = m.oneof_decl.add(); o.name = nxt(); idx = len(m.oneof_decl) - 1; expect('{')
                while peek() != '}': parse_field(m, idx)
                expect('}')
            elif t == ';': nxt()
            else: parse_field(m)
        expect('}')
    while i < len(toks):
        t = nxt()
        if t == 'syntax': expect('='); assert nxt() == '"proto3"'; expect(';')
        elif t == 'package': fd.package = nxt(); expect(';')
        elif t == 'option':
            name = nxt(); expect('='); val = nxt(); expect(';')
            if name == 'java_package': fd.options.java_package = val.strip('"')
        elif t == 'import':
            if peek() in ('public','weak'): nxt()
            fd.dependency.append(prefix + nxt().strip('"')); expect(';')
        elif t == 'enum': parse_enum(fd.enum_type.add())
        elif t == 'message': parse_message(fd.message_type.add())
        elif t == ';': pass
        else: raise SyntaxError((t, path))
    return fd

def resolve(fds):
    # collect fully-qualified names and kinds
    kinds = {}
    def walk(pkg, m):
        full = pkg + '.' + m.name; kinds[full] = 'msg'
        for e in m.enum_type: kinds[full + '.' + e.name] = 'enum'
        for n in m.nested_type: walk(full, n)
    for fd in fds:
        for e in fd.enum_type: kinds[fd.package + '.' + e.name] = 'enum'
        for m in fd.message_type: walk(fd.package, m)
    def fix(scope, m):
        full = scope + '.' + m.name
        for f in m.field:
            if f.type_name.startswith('@NESTED@'):
                f.type_name = '.' + full + '.' + f.type_name[8:]
            elif f.type_name.startswith('@REF@'):
                ref = f.type_name[5:]; s = full; found = None
                while True:
                    cand = (s + '.' + ref) if s else ref
                    if cand in kinds: found = cand; break
                    if not s: break
                    s = s.rpartition('.')[0]
                assert found, (ref, full)
                f.type_name = '.' + found
                f.type = D.FieldDescriptorProto.TYPE_ENUM if kinds[found] == 'enum' else D.FieldDescriptorProto.TYPE_MESSAGE
        for n in m.nested_type: fix(full, n)
    for fd in fds:
        for m in fd.message_type: fix(fd.package, m)

TEMPLATE = '''# Generated by /verif miniprotoc from {src}. DO NOT EDIT.
from google.protobuf import descriptor as _descriptor
from google.protobuf import descriptor_pool as _descriptor_pool
from google.protobuf import symbol_database as _symbol_database
from google.protobuf.internal import builder as _builder
_sym_db = _symbol_database.Default()
{imports}
DESCRIPTOR = _descriptor_pool.Default().AddSerializedFile({blob!r})
_globals = globals()
_builder.BuildMessageAndEnumDescriptors(DESCRIPTOR, _globals)
_builder.BuildTopDescriptorsAndMessages(DESCRIPTOR, {modname!r}, _globals)
'''
def main(proto_dir, out_dir):
    prefix = 'gtirb/proto/'
    files = sorted(f for f in os.listdir(proto_dir) if f.endswith('.proto'))
    fds = [parse(os.path.join(proto_dir, f), prefix) for f in files]
    resolve(fds)
    os.makedirs(out_dir, exist_ok=True)
    for fd in fds:
        base = os.path.basename(fd.name)[:-6]
        imports = '\n'.join('from gtirb.proto import %s_pb2 as _dep_%s' % (os.path.basename(d)[:-6], os.path.basename(d)[:-6]) for d in fd.dependency)
        open(os.path.join(out_dir, base + '_pb2.py'), 'w').write(TEMPLATE.format(src=fd.name, imports=imports, blob=fd.SerializeToString(), modname='gtirb.proto.%s_pb2' % base))
if __name__ == '__main__': main(sys.argv[1], sys.argv[2])
