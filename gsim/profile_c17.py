"""C17 (and the negative direction of C09): single-fault enumeration on files of
the simulated disk.

Per run: a world is driven for a short seeded history, healed and saved (the
valid file must load), then every single fault of the configured kinds is
applied in turn and the result is handed to the loader under a CPU-time alarm.
Outcome: reject (exception; ValueError / DeserializationError where the
statements demand that class) or accept, in which case the coherence checker
runs and the IR must save and load again.
"""
import hashlib
import io
import random
import traceback

from . import gen_persist
from .core import Diverged, Streams, Violation, WatchdogTimeout
from .ops import capture
from .ops import execute_strict as execute
from .persist import do_load, parse_file, self_contained
from .profiles import PersistProfile, Profile, profile
from .sim import RunResult
from .world import FIELDS, PARENT_OF, World

FAULT_KINDS = ("torn", "torn_tail", "lost_chunk", "dup_chunk", "bitflip", "byteset", "header", "struct")


def _rng(*parts):
    h = hashlib.sha256("/".join(str(p) for p in parts).encode()).digest()
    return random.Random(int.from_bytes(h[:16], "big"))


# ---------------------------------------------------------------------------
# structural faults: edit the parsed message, re-serialise


def struct_faults(w, msg_bytes, r):
    """Yields (descriptor, body_bytes, expectation) where expectation is
    'deser' (must raise DeserializationError: dangling / ill-typed reference),
    'valueerror' (must raise ValueError) or None (reject or coherent)."""
    P = w.g.proto

    def fresh():
        m = P.IR_pb2.IR()
        m.ParseFromString(msg_bytes)
        return m

    base = fresh()
    # inventory of uuids by kind
    inv = {"ir": [base.uuid], "mod": [], "sec": [], "bi": [], "cb": [], "db": [], "px": [], "sym": []}
    for m in base.modules:
        inv["mod"].append(m.uuid)
        inv["px"] += [p.uuid for p in m.proxies]
        inv["sym"] += [s.uuid for s in m.symbols]
        for s in m.sections:
            inv["sec"].append(s.uuid)
            for b in s.byte_intervals:
                inv["bi"].append(b.uuid)
                for k in b.blocks:
                    if k.HasField("code"):
                        inv["cb"].append(k.code.uuid)
                    elif k.HasField("data"):
                        inv["db"].append(k.data.uuid)
    missing = bytes(r.getrandbits(8) for _ in range(16))
    if r.random() < 0.25:
        # the nil / all-ones UUID as the name of a node that does not exist
        cand = r.choice([b"\0" * 16, b"\xff" * 16])
        if cand not in [u for us in inv.values() for u in us]:
            missing = cand

    known = {u for us in inv.values() for u in us}

    def near(u):
        """A UUID no node carries that differs from the referenced one only in the RFC-4122
        version nibble or variant bits (a loader that normalises those bits would resolve it)."""
        for i, bit in ((6, 0x10), (6, 0x20), (8, 0x40), (8, 0x80)):
            v = bytearray(u)
            v[i] ^= bit
            if len(v) == 16 and bytes(v) not in known:
                return bytes(v)
        return None

    def wrong(kinds):
        pool = [u for k in kinds for u in inv[k]]
        return pool[r.randrange(len(pool))] if pool else None

    def wrong_each(kinds):
        """one node of EACH wrong kind that exists in the file"""
        return [(k, inv[k][r.randrange(len(inv[k]))]) for k in kinds if inv[k]]

    out = []

    def emit(desc, m, exp=None):
        out.append((desc, m.SerializeToString(), exp))

    # --- references: dangling and ill-typed ---------------------------------
    # symbol referents
    n = 0
    for mi, m in enumerate(base.modules):
        for si, s in enumerate(m.symbols):
            if s.HasField("referent_uuid"):
                if n < 3:
                    x = fresh()
                    x.modules[mi].symbols[si].referent_uuid = missing
                    emit("dangling:symbol_referent:%d.%d" % (mi, si), x, "deser")
                    nu = near(s.referent_uuid)
                    if nu is not None:
                        x = fresh()
                        x.modules[mi].symbols[si].referent_uuid = nu
                        emit("dangling:near:symbol_referent:%d.%d" % (mi, si), x, "deser")
                    for wk, wu in wrong_each(("sym", "sec", "bi", "mod", "ir")):
                        if wu != s.uuid:
                            x = fresh()
                            x.modules[mi].symbols[si].referent_uuid = wu
                            emit("illtyped:symbol_referent->%s:%d.%d" % (wk, mi, si), x, "deser")
                n += 1
        if m.entry_point:
            x = fresh()
            x.modules[mi].entry_point = missing
            emit("dangling:entry_point:%d" % mi, x, "deser")
            nu = near(m.entry_point)
            if nu is not None:
                x = fresh()
                x.modules[mi].entry_point = nu
                emit("dangling:near:entry_point:%d" % mi, x, "deser")
            for wk, wu in wrong_each(("db", "px", "sym", "sec", "bi", "mod", "ir")):
                x = fresh()
                x.modules[mi].entry_point = wu
                emit("illtyped:entry_point->%s:%d" % (wk, mi), x, "deser")
    for ei, e in enumerate(base.cfg.edges[:3]):
        for fld in ("source_uuid", "target_uuid"):
            x = fresh()
            setattr(x.cfg.edges[ei], fld, missing)
            emit("dangling:edge_%s:%d" % (fld, ei), x, "deser")
            nu = near(getattr(e, fld))
            if nu is not None:
                x = fresh()
                setattr(x.cfg.edges[ei], fld, nu)
                emit("dangling:near:edge_%s:%d" % (fld, ei), x, "deser")
            for wk, wu in wrong_each(("db", "sym", "sec", "bi", "mod", "ir")):
                x = fresh()
                setattr(x.cfg.edges[ei], fld, wu)
                emit("illtyped:edge_%s->%s:%d" % (fld, wk, ei), x, "deser")
                # ... and the same with the offending UUID ALSO named in the vertex list
                x = fresh()
                setattr(x.cfg.edges[ei], fld, wu)
                x.cfg.vertices.append(wu)
                emit("illtyped:listed_vertex:edge_%s->%s:%d" % (fld, wk, ei), x, "deser")
            x = fresh()
            setattr(x.cfg.edges[ei], fld, missing)
            x.cfg.vertices.append(missing)
            emit("dangling:listed_vertex:edge_%s:%d" % (fld, ei), x, "deser")
    n = 0
    for mi, m in enumerate(base.modules):
        for si, s in enumerate(m.sections):
            for bi_, b in enumerate(s.byte_intervals):
                for off in sorted(b.symbolic_expressions):
                    if n >= 3:
                        break
                    n += 1
                    e = b.symbolic_expressions[off]
                    flds = [("addr_const", "symbol_uuid")] if e.HasField("addr_const") else [("addr_addr", "symbol1_uuid"), ("addr_addr", "symbol2_uuid")]
                    for sub, fld in flds:
                        x = fresh()
                        setattr(getattr(x.modules[mi].sections[si].byte_intervals[bi_].symbolic_expressions[off], sub), fld, missing)
                        emit("dangling:expr_%s:%d.%d.%d@%d" % (fld, mi, si, bi_, off), x, "deser")
                        nu = near(getattr(getattr(e, sub), fld))
                        if nu is not None:
                            x = fresh()
                            setattr(getattr(x.modules[mi].sections[si].byte_intervals[bi_].symbolic_expressions[off], sub), fld, nu)
                            emit("dangling:near:expr_%s:%d.%d.%d@%d" % (fld, mi, si, bi_, off), x, "deser")
                        for wk, wu in wrong_each(("cb", "db", "px", "sec", "bi", "mod", "ir")):
                            x = fresh()
                            setattr(getattr(x.modules[mi].sections[si].byte_intervals[bi_].symbolic_expressions[off], sub), fld, wu)
                            emit("illtyped:expr_%s->%s:%d.%d.%d@%d" % (fld, wk, mi, si, bi_, off), x, "deser")
    # --- duplicated UUIDs ------------------------------------------------------
    def all_nodes(x):
        """[(kind, setter)] over every node message of x"""
        res = [("ir", x)]
        for m in x.modules:
            res.append(("mod", m))
            res += [("px", p) for p in m.proxies]
            res += [("sym", s) for s in m.symbols]
            for s in m.sections:
                res.append(("sec", s))
                for b in s.byte_intervals:
                    res.append(("bi", b))
                    for k in b.blocks:
                        if k.HasField("code"):
                            res.append(("cb", k.code))
                        elif k.HasField("data"):
                            res.append(("db", k.data))
        return res

    nodes = all_nodes(base)
    pairs = []
    for i in range(len(nodes)):
        for j in range(len(nodes)):
            if i != j:
                pairs.append((i, j))
    r.shuffle(pairs)
    seen_kinds = set()
    for i, j in pairs:
        key = (nodes[i][0], nodes[j][0])
        if key in seen_kinds:
            continue
        seen_kinds.add(key)
        x = fresh()
        xn = all_nodes(x)
        xn[i][1].uuid = xn[j][1].uuid
        emit("dup_uuid:%s<-%s:%d<-%d" % (nodes[i][0], nodes[j][0], i, j), x)
    # a container and one of its OWN descendants (decoded while the container is being built)
    for mi, m in enumerate(base.modules[:2]):
        own = [("px", lambda x, i=0: x.proxies[i]) for _ in m.proxies[:1]]
        own += [("sym", lambda x, i=0: x.symbols[i]) for _ in m.symbols[:1]]
        own += [("sec", lambda x, i=0: x.sections[i]) for _ in m.sections[:1]]
        if m.sections and m.sections[0].byte_intervals:
            own.append(("bi", lambda x: x.sections[0].byte_intervals[0]))
            if m.sections[0].byte_intervals[0].blocks:
                def blk(x):
                    b = x.sections[0].byte_intervals[0].blocks[0]
                    return b.code if b.HasField("code") else b.data
                own.append(("block", blk))
        for kind, get in own:
            x = fresh()
            get(x.modules[mi]).uuid = x.modules[mi].uuid
            emit("dup_uuid:own_%s=module:%d" % (kind, mi), x)
        for si, sct in enumerate(m.sections[:1]):
            if sct.byte_intervals:
                x = fresh()
                x.modules[mi].sections[si].byte_intervals[0].uuid = x.modules[mi].sections[si].uuid
                emit("dup_uuid:own_bi=section:%d.%d" % (mi, si), x)
    # the same UUID carried by THREE nodes (double fault; "for any byte string" covers it):
    # a same-kind duplicate is decoded as a move of the first node, which takes its UUID out
    # of the table until the new owner is attached - a third carrier can slip through then
    trip = [(i, j, k) for i in range(len(nodes)) for j in range(len(nodes)) for k in range(len(nodes)) if len({i, j, k}) == 3]
    if trip:
        r.shuffle(trip)
        seen3 = set()
        for i, j, k in trip:
            key3 = (nodes[i][0], nodes[j][0], nodes[k][0])
            if key3 in seen3 or nodes[i][0] != nodes[j][0]:
                continue
            seen3.add(key3)
            if len(seen3) > 24:
                break
            x = fresh()
            xn = all_nodes(x)
            xn[j][1].uuid = xn[i][1].uuid
            xn[k][1].uuid = xn[i][1].uuid
            emit("dup3_uuid:%s=%s=%s:%d,%d,%d" % (nodes[i][0], nodes[j][0], nodes[k][0], i, j, k), x)
    # an interval and one of its own blocks
    for mi, m in enumerate(base.modules):
        for si, s in enumerate(m.sections):
            for bi_, b in enumerate(s.byte_intervals):
                for ki, k in enumerate(b.blocks[:1]):
                    x = fresh()
                    xb = x.modules[mi].sections[si].byte_intervals[bi_]
                    inner = xb.blocks[ki].code if xb.blocks[ki].HasField("code") else xb.blocks[ki].data
                    inner.uuid = xb.uuid
                    emit("dup_uuid:own_block=interval:%d.%d.%d.%d" % (mi, si, bi_, ki), x)
    # --- unknown enum numbers ----------------------------------------------------
    for mi, m in enumerate(base.modules[:2]):
        for fld in ("isa", "file_format", "byte_order"):
            x = fresh()
            setattr(x.modules[mi], fld, 9999)
            emit("enum:%s:%d" % (fld, mi), x)
        for si, s in enumerate(m.sections[:2]):
            x = fresh()
            x.modules[mi].sections[si].section_flags.append(9999)
            emit("enum:section_flag:%d.%d" % (mi, si), x)
            for bi_, b in enumerate(s.byte_intervals[:2]):
                for ki, k in enumerate(b.blocks):
                    if k.HasField("code"):
                        x = fresh()
                        x.modules[mi].sections[si].byte_intervals[bi_].blocks[ki].code.decode_mode = 9999
                        emit("enum:decode_mode:%d.%d.%d.%d" % (mi, si, bi_, ki), x)
                        break
    for ei, e in enumerate(base.cfg.edges[:2]):
        if e.HasField("label"):
            x = fresh()
            x.cfg.edges[ei].label.type = 9999
            emit("enum:edge_type:%d" % ei, x)
    # --- wrong-length UUIDs --------------------------------------------------------
    idx = list(range(len(nodes)))
    r.shuffle(idx)
    for i in idx[:6]:
        for ln in (0, 15, 17):
            x = fresh()
            xn = all_nodes(x)
            xn[i][1].uuid = (xn[i][1].uuid + b"\x07")[:ln] if ln else b""
            emit("uuid_len%d:%s:%d" % (ln, nodes[i][0], i), x)
    for ei, e in enumerate(base.cfg.edges[:1]):
        for ln in (0, 15, 17):
            x = fresh()
            x.cfg.edges[ei].source_uuid = (e.source_uuid + b"\x07")[:ln]
            emit("uuid_len%d:edge_source:%d" % (ln, ei), x)
    # --- AuxData tables: never decoded by the loader, must ride through a re-save ----------
    def aux_maps(x):
        out = [("ir", x.aux_data)]
        for mi, m in enumerate(x.modules):
            out.append(("mod%d" % mi, m.aux_data))
        return out

    for ci, (cname, amap) in enumerate(aux_maps(base)):
        for name in sorted(amap)[:2]:
            for what in ("empty_blob", "empty_type", "garbled_type", "truncated_blob"):
                x = fresh()
                ad = aux_maps(x)[ci][1][name]
                if what == "empty_blob":
                    ad.data = b""
                elif what == "empty_type":
                    ad.type_name = ""
                elif what == "garbled_type":
                    ad.type_name = "mapping<" + ad.type_name
                else:
                    ad.data = ad.data[: len(ad.data) // 2]
                emit("aux:%s:%s.%s" % (what, cname, name), x)
    # --- version field, bytes > size, one-ofs unset -----------------------------------
    for v in (0, 3, 5, 2**31):
        x = fresh()
        x.version = v
        emit("version_field:%d" % v, x, "valueerror")
    for mi, m in enumerate(base.modules):
        for si, s in enumerate(m.sections):
            for bi_, b in enumerate(s.byte_intervals[:2]):
                x = fresh()
                xb = x.modules[mi].sections[si].byte_intervals[bi_]
                if len(xb.contents) == 0:
                    xb.contents = b"\0"
                xb.size = len(xb.contents) - 1
                emit("bytes_gt_size:%d.%d.%d" % (mi, si, bi_), x)
                if b.blocks:
                    x = fresh()
                    x.modules[mi].sections[si].byte_intervals[bi_].blocks[0].ClearField("value")
                    emit("oneof_unset:block:%d.%d.%d" % (mi, si, bi_), x)
                for off in sorted(b.symbolic_expressions)[:1]:
                    x = fresh()
                    x.modules[mi].sections[si].byte_intervals[bi_].symbolic_expressions[off].ClearField("value")
                    emit("oneof_unset:expr:%d.%d.%d@%d" % (mi, si, bi_, off), x)
    return out


# ---------------------------------------------------------------------------
# byte-level faults


def byte_faults(data, chunks, kinds, seed_parts, tier_frac):
    """Yields (descriptor, faulted bytes). Each kind draws from its own PRNG
    so that one fault can be re-created from its descriptor alone."""
    n = len(data)
    if "torn" in kinds:
        for k in range(n):
            yield ("torn:%d" % k, data[:k])
    if "torn_tail" in kinds:
        r = _rng(*seed_parts, "torn_tail")
        for k in range(0, n, 1 if tier_frac >= 1 else 9):
            pad = (-k) % 512
            tail = bytes(pad) if r.random() < 0.5 else bytes(r.getrandbits(8) for _ in range(min(pad, 64)))
            yield ("torn_tail:%d:%s" % (k, "zeros" if tail == bytes(len(tail)) else "stale"), data[:k] + tail)
    if chunks and ("lost_chunk" in kinds or "dup_chunk" in kinds):
        for i in range(len(chunks)):
            if "lost_chunk" in kinds:
                yield ("lost_chunk:%d" % i, b"".join(chunks[:i] + chunks[i + 1 :]))
            if "dup_chunk" in kinds:
                yield ("dup_chunk:%d" % i, b"".join(chunks[: i + 1] + chunks[i:]))
    if "header" in kinds:
        for i in range(min(8, n)):
            for v in {0, (data[i] + 1) & 255, (data[i] - 1) & 255, 255}:
                if v != data[i]:
                    yield ("header:%d=%d" % (i, v), data[:i] + bytes([v]) + data[i + 1 :])
    if "bitflip" in kinds:
        r = _rng(*seed_parts, "bitflip")
        for pos in range(n):
            for bit in range(8):
                if tier_frac >= 1 or r.random() < tier_frac:
                    yield ("bitflip:%d.%d" % (pos, bit), data[:pos] + bytes([data[pos] ^ (1 << bit)]) + data[pos + 1 :])
    if "byteset" in kinds:
        r = _rng(*seed_parts, "byteset")
        for pos in range(n):
            for v in (0, 255):
                if data[pos] != v and (tier_frac >= 1 or r.random() < tier_frac * 2):
                    yield ("byteset:%d=%d" % (pos, v), data[:pos] + bytes([v]) + data[pos + 1 :])


def apply_fault(w, desc, data, chunks, seed_parts, tier_frac):
    """Re-create one fault from its descriptor (replay)."""
    kind = desc.split(":")[0]
    r = _rng(*seed_parts, "struct")
    if kind in ("dangling", "illtyped", "dup_uuid", "dup3_uuid", "enum", "version_field", "bytes_gt_size", "oneof_unset", "aux") or kind.startswith("uuid_len"):  # structural
        for d, body, exp in struct_faults(w, data[8:], r):
            if d == desc:
                return data[:8] + body, exp
        return None, None
    for d, f in byte_faults(data, chunks, (kind,), seed_parts, tier_frac):
        if d == desc:
            return f, None
    return None, None


# ---------------------------------------------------------------------------
# coherence of an accepted IR (label-free: the loaded graph is foreign)


def uuid_fields(msg_bytes, P):
    """Every 16-byte uuid-like value mentioned in a parsable message."""
    out = set()
    try:
        m = P.IR_pb2.IR()
        m.ParseFromString(msg_bytes)
    except Exception:
        return out
    out.add(bytes(m.uuid))
    for mod in m.modules:
        out.add(bytes(mod.uuid))
        out.add(bytes(mod.entry_point))
        for p in mod.proxies:
            out.add(bytes(p.uuid))
        for s in mod.symbols:
            out.add(bytes(s.uuid))
            out.add(bytes(s.referent_uuid))
        for s in mod.sections:
            out.add(bytes(s.uuid))
            for b in s.byte_intervals:
                out.add(bytes(b.uuid))
                for k in b.blocks:
                    out.add(bytes(k.code.uuid))
                    out.add(bytes(k.data.uuid))
    for e in m.cfg.edges:
        out.add(bytes(e.source_uuid))
        out.add(bytes(e.target_uuid))
    return {u for u in out if len(u) == 16}


def coherent(w, I, faulted, fail):
    """Structural guarantees of C17 on an IR returned by the loader. `fail`
    is called with (check id, detail) on the first defect."""
    import uuid as _uuid

    g = w.g
    walk = w.live_walk(I)
    ids = {}
    for n in walk:
        if id(n) in ids:
            fail("incoherent:node_twice", "%s %s appears twice in the containment walk" % (type(n).__name__, n.uuid))
        ids[id(n)] = n
    by_uuid = {}
    for n in walk:
        got = I.get_by_uuid(n.uuid)
        if got is not n:
            fail("incoherent:uuid_table", "get_by_uuid(%s) is %s but an attached %s carries that UUID" % (n.uuid, type(got).__name__, type(n).__name__))
        by_uuid[n.uuid.bytes] = n
    for u in uuid_fields(faulted[8:], g.proto):
        if u not in by_uuid and I.get_by_uuid(_uuid.UUID(bytes=u)) is not None:
            fail("incoherent:uuid_table_extra", "get_by_uuid(%s) finds a node that is not reachable through containment" % u.hex())
    # both ends of containment
    for P_ in walk:
        for kind, cls in w.kind_cls.items():
            if type(P_) is cls and kind in FIELDS:
                for field, kinds in FIELDS[kind].items():
                    coll = getattr(P_, field)
                    for c in coll:
                        ck = w.kind_of_obj(c)
                        if ck not in kinds:
                            fail("incoherent:child_kind", "%s in %s.%s" % (type(c).__name__, type(P_).__name__, field))
                        if getattr(c, PARENT_OF[ck][2]) is not P_:
                            fail("incoherent:backptr", "%s %s listed in %s.%s but its parent attribute differs" % (type(c).__name__, c.uuid, type(P_).__name__, field))
                        if c not in coll:
                            fail("incoherent:contains", "iterated child not 'in' its collection")
    for n in walk:
        if n is not I and n.ir is not I:
            fail("incoherent:derived_ir", "%s %s reachable from the IR but .ir is %r" % (type(n).__name__, n.uuid, n.ir))
    # typed, attached references
    def ref(x, cls, what):
        if not isinstance(x, cls):
            fail("illtyped:" + what, "%s is a %s" % (what, type(x).__name__))
        if id(x) not in ids:
            fail("partially_linked:" + what, "%s refers to a %s %s that is not attached to the returned IR" % (what, type(x).__name__, x.uuid))

    for m in I.modules:
        if m.entry_point is not None:
            ref(m.entry_point, g.CodeBlock, "entry_point")
        for s in m.symbols:
            if s.referent is not None:
                ref(s.referent, g.Block, "symbol referent")
            if s.value is not None and not isinstance(s.value, int):
                fail("illtyped:symbol_value", repr(s.value))
        for sec in m.sections:
            for f in sec.flags:
                if not isinstance(f, g.Section.Flag):
                    fail("illtyped:section_flag", repr(f))
            for bi in sec.byte_intervals:
                if len(bi.contents) > bi.size:
                    fail("incoherent:bytes_gt_size", "%d bytes stored, size %d" % (len(bi.contents), bi.size))
                if bi.initialized_size != len(bi.contents):
                    fail("incoherent:init_size", "")
                for off, e in bi.symbolic_expressions.items():
                    if not isinstance(e, (g.SymAddrConst, g.SymAddrAddr)):
                        fail("illtyped:expression", type(e).__name__)
                    for s in e.symbols:
                        ref(s, g.Symbol, "expression symbol")
        for attr, cls in (("isa", g.Module.ISA), ("file_format", g.Module.FileFormat), ("byte_order", g.Module.ByteOrder)):
            if not isinstance(getattr(m, attr), cls):
                fail("illtyped:" + attr, repr(getattr(m, attr)))
    for e in I.cfg:
        ref(e.source, g.CfgNode, "edge source")
        ref(e.target, g.CfgNode, "edge target")
        if e.label is not None and not isinstance(e.label.type, g.Edge.Type):
            fail("illtyped:edge_type", repr(e.label.type))
    # can be saved again, and the output loads
    buf = io.BytesIO()
    r1 = capture(lambda: I.save_protobuf_file(buf))
    if r1.kind != "ok":
        fail("accepted_but_unsavable", "%s: %s" % (type(r1.exc).__name__, r1.exc))
    # The statement asks that an accepted IR "can be saved again", not that
    # the re-saved file loads (an accepted IR may hold a cross-module forward
    # reference, which C01 excludes): reloading is only a reach probe.
    r2 = capture(lambda: g.IR.load_protobuf_file(io.BytesIO(buf.getvalue())))
    w.counters["probe:resaved_file_" + ("loads" if r2.kind == "ok" else "rejected")] += 1
    if r2.kind == "ok":
        w.dropped.append(r2.raw)


class FaultProfile(PersistProfile):
    """Shared by C17 (all fault kinds) and C09 (dangling / ill-typed)."""

    kinds = FAULT_KINDS
    level = "fault_enumeration"
    chunk = 2

    def fault_config(self, c, r):
        c["steps"] = r.randrange(20, 50)
        c["boot"] = r.choice([12, 20, 30])
        c["weights"] = {"new": 7.0, "setattr": 3.0, "attr_sym": 4.0, "se": 4.0, "cfg": 4.0, "aux": 1.5, "setparent": 1.0, "setop": 0.5, "bytes": 0.5, "attr_index": 1.0}
        c["mode"] = "faults"
        c["cross_module_refs"] = "backward"
        c["aux_unordered"] = False  # set/mapping element order on the wire depends on str hashing
        c["aux_depth"] = r.choice([1, 2])
        c["max_aux"] = 2
        c["max_ir"] = 1
        c["bulk"] = False  # every byte of the file is a fault site: keep the files small
        return c

    def config(self, r):
        return self.fault_config(PersistProfile.config(self, r), r)

    def tier_frac(self, cfg):
        return cfg.get("bit_fraction", 0.125)

    def run_faults(self, ctx, seed, run, ops=None, cfg=None):
        res = RunResult()
        res.seed, res.run = seed, run
        rs = Streams(seed, run)
        if cfg is None:
            cfg = self.fault_config(PersistProfile.config(self, rs.config), rs.config)
            cfg["bit_fraction"] = 1.0 if getattr(self, "tier", "quick") == "thorough" else self.bit_fraction
        res.cfg = cfg
        ctx.seams.bind(rs, cfg.get("order_mode", "sorted"))
        w = World(ctx.g, ctx.seams, rs, cfg, self.prop)
        self.begin(w)
        replay = ops is not None
        only = cfg.get("only_fault")
        stats = w.counters
        cur = {"desc": None}
        hashes = set()
        try:
            try:
                # 1. history
                step = misses = 0
                nsteps = len(ops) if replay else cfg["steps"]
                while step < nsteps:
                    w.step = step
                    if replay:
                        op = ops[step]
                    else:
                        op = PersistProfile.gen(self, w)
                        if op is None:
                            misses += 1
                            if misses > 2000:
                                break
                            continue
                        res.ops.append(op)
                    execute(w, op)
                    res.steps += 1
                    step += 1
                # 2. heal + save the richest IR
                with ctx.seams.observing():
                    irs = sorted(w.m.by_kind("ir"), key=lambda l: (-len(w.m.subtree(l)), l))
                if not irs:
                    raise Diverged("no IR to save")
                ir = irs[0]
                if not replay:
                    with ctx.seams.observing():
                        extra = gen_persist.enrich_ops(w, _rng(seed, run, "enrich"), ir)
                    for h in extra:
                        w.step = len(res.ops)
                        res.ops.append(h)
                        execute(w, h)
                        res.steps += 1
                with ctx.seams.observing():
                    heal = gen_persist.heal_ops(w, ir)
                for h in heal:
                    execute(w, h)
                with ctx.seams.observing():
                    sc = self_contained(w.m, ir, cfg.get("cross_module_refs", "none"))
                if not sc:
                    raise Diverged("could not heal")
                w.step = res.steps
                execute(w, {"op": "save", "ir": ir, "path": "valid", "flavor": "stream"})
                data = w.disk.files.get("valid")
                if data is None:
                    raise Diverged("save failed")
                chunks = w.disk.chunks.get("valid")
                r0 = capture(lambda: do_load(w, "valid", "stream"))
                if r0.kind == "ok":
                    # Byte-level faults are addressed by position, so the bytes must not depend on
                    # str hashing (order of section flags / expression attributes / map entries):
                    # the file that is faulted is the saved message re-serialised canonically.
                    cm = parse_file(w, data)
                    for pm in cm.modules:
                        for ps in pm.sections:
                            fl = sorted(ps.section_flags)
                            del ps.section_flags[:]
                            ps.section_flags.extend(fl)
                            for pb in ps.byte_intervals:
                                for off in list(pb.symbolic_expressions):
                                    pe = pb.symbolic_expressions[off]
                                    fl = sorted(pe.attribute_flags)
                                    del pe.attribute_flags[:]
                                    pe.attribute_flags.extend(fl)
                    body = cm.SerializeToString(deterministic=True)
                    data = data[:8] + body
                    chunks = list(chunks[:-1]) + [body] if chunks else [data[:5], data[5:6], data[6:7], data[7:8], body]
                    rc = capture(lambda: w.g.IR.load_protobuf_file(io.BytesIO(data)))
                    if rc.kind != "ok":
                        raise Diverged("canonical re-serialisation of the valid file does not load: %r" % (rc.exc,))
                    w.dropped.append(rc.raw)
                if r0.kind != "ok":
                    w.violate(("C17", "C01"), "valid_file_rejected", "file produced by save from a self-contained IR is rejected: %s: %s" % (type(r0.exc).__name__, r0.exc))
                w.dropped.append(r0.raw)
                stats["probe:valid_file_bytes"] += len(data)
                stats["probe:valid_file_nodes"] += len(w.m.subtree(ir))
                # 3. single faults
                fr = _rng(seed, run, "faults", "struct")
                if only:
                    f, exp = apply_fault(w, only, data, chunks, (seed, run, "faults"), self.tier_frac(cfg))
                    todo = [(only, f, exp)] if f is not None else []
                else:
                    todo = []
                    if "struct" in self.kinds:
                        for d, body, exp in struct_faults(w, data[8:], fr):
                            if self.struct_filter(d):
                                todo.append((d, data[:8] + body, exp))
                    bk = [k for k in self.kinds if k != "struct"]
                    todo = todo + [(d, f, None) for d, f in byte_faults(data, chunks, bk, (seed, run, "faults"), self.tier_frac(cfg))]
                for desc, faulted, exp in todo:
                    if faulted == data:
                        continue
                    cur["desc"] = desc
                    kind = desc.split(":")[0]
                    stats["fault:" + kind] += 1
                    hashes.add(hashlib.sha256(faulted).digest()[:8])
                    self.judge_one(w, desc, kind, data, faulted, exp, stats)
            except WatchdogTimeout:
                w.violate(("C17",), "hang", "loader exceeded %.0fs CPU on fault %s" % (w.wd.seconds, cur["desc"]))
        except Violation as v:
            res.violation = {"prop": v.prop, "check": v.check, "detail": ("fault=%s: " % cur["desc"]) + v.detail[:1800], "step": res.steps}
            res.cfg = dict(cfg, only_fault=cur["desc"]) if cur["desc"] else cfg
        except Diverged as d:
            res.aborted = str(d)[:300]
        except WatchdogTimeout:
            res.aborted = "timeout"
        except Exception:
            res.harness_error = traceback.format_exc()[-3000:]
        finally:
            ctx.seams.bind(None, "sorted")
        if replay:
            res.ops = list(ops)
        w.event({"end": True, "violation": res.violation and [res.violation["check"]], "faults": sum(v for k, v in stats.items() if k.startswith("fault:"))})
        res.digest = w.log.digest()
        stats["probe:distinct_faulted_files"] = len(hashes)
        res.counters = dict(stats)
        res.nontrivial = len(hashes) > 0
        res.kind_seq_hash = hashlib.sha256(repr(sorted(hashes)).encode()).hexdigest()[:16]
        res.state_hash = w.m.state_hash()
        res.tail = list(w.log.tail[-6:])
        ctx.seams.iter_calls = ctx.seams.permuted_calls = 0
        return res

    def struct_filter(self, desc):
        return True

    def judge_one(self, w, desc, kind, data, faulted, exp, stats):
        g = w.g
        DE = g.util.DeserializationError

        def fail(check, detail):
            w.violate(("C17",), check, detail)

        with w.wd:
            out = capture(lambda: g.IR.load_protobuf_file(io.BytesIO(faulted)))
        if out.kind == "exc":
            stats["outcome:reject:" + kind] += 1
            stats["reject_exc:" + type(out.exc).__name__] += 1
            must_ve = faulted[:5] != b"GTIRB" or faulted[7:8] != data[7:8] or exp == "valueerror"
            if must_ve and not isinstance(out.exc, ValueError):
                fail("reject_class:ValueError", "magic/version fault must be rejected with ValueError, got %s: %s" % (type(out.exc).__name__, out.exc))
            if exp == "deser" and not isinstance(out.exc, DE):
                if w.owns(("C09",)):
                    w.violate(("C09",), "reject_class:DeserializationError", "dangling / ill-typed reference must be rejected with DeserializationError, got %s: %s" % (type(out.exc).__name__, out.exc))
                # C17 only asks for a rejection: a finding that belongs to C09 alone must not end this
                # file's fault list (it used to abort the run and so masked the faults listed after it)
                stats["probe:reject_class_not_deser"] += 1
            w.event({"fault": desc, "out": "reject:" + type(out.exc).__name__})
            return
        stats["outcome:accept:" + kind] += 1
        I = out.raw
        w.dropped.append(I)
        if faulted[:5] != b"GTIRB" or faulted[7:8] != data[7:8] or exp == "valueerror":
            fail("accepted:bad_header_or_version", "file with wrong magic / version byte / version field was accepted")
        if exp == "deser":
            w.violate(("C09", "C17"), "accepted:bad_reference", "file with a dangling or ill-typed reference produced an IR")
        if w.owns(("C17",)):
            with w.wd:
                coherent(w, I, faulted, fail)
        w.event({"fault": desc, "out": "accept"})

    def extra_coverage(self, results, tot):
        return {
            "fault_outcomes": {k[8:]: v for k, v in sorted(tot.items()) if k.startswith("outcome:")},
            "reject_exception_classes": {k[11:]: v for k, v in sorted(tot.items()) if k.startswith("reject_exc:")},
            "valid_files": sum(1 for d in results if d["counters"].get("probe:valid_file_bytes")),
            "valid_file_bytes_total": tot.get("probe:valid_file_bytes", 0),
            "distinct_faulted_files": tot.get("probe:distinct_faulted_files", 0),
            "configuration": "fault-injecting: exactly one fault per file; AuxData of faulted files is never decoded",
        }

    def evidence(self, prop, tier, seed, results, wall, cut, lo, hi, jobs, pools_info=()):
        ev = Profile.evidence(self, prop, tier, seed, results, wall, cut, lo, hi, jobs, pools_info)
        cov = ev["coverage"]
        cov["files"] = cov["evaluations"]
        cov["evaluations"] = sum(v for k, v in cov["fault_kinds_fired"].items())
        cov["distinct_nontrivial"] = cov["distinct_faulted_files"]
        cov["exhaustive"] = False
        cov["exhaustive_per_file"] = self.exhaustive_note
        return ev


@profile
class C17(FaultProfile):
    prop = "C17"
    name = "fault"
    runs_quick = 120
    runs_thorough = 400
    bit_fraction = 0.125
    exhaustive_note = "per valid file: every cut point, every header-byte variation, every chunk loss/duplication, the whole structural fault list; bit flips and byte sets sampled (seeded 1/8 in the quick tier, all in the thorough tier)"
    rule = (
        "one evaluation = one faulted file handed to the loader: a valid file is produced by save from a healed, "
        "self-contained IR built by a seeded history (must load), then single faults are applied in turn - every "
        "truncation point, torn write with zero/stale tail to the next 512-byte boundary, each write() chunk lost or "
        "duplicated, each header byte varied, single bit flips and bytes set to 00/FF, and the structural fault list "
        "(dangling / ill-typed reference of each kind, duplicated UUID same / different kind / IR's / interval=own block, "
        "unknown enum numbers, wrong-length UUIDs, version field, bytes > size, one-ofs unset). Outcome: reject (ValueError "
        "where the statement says so) or accept + coherence checker (UUID table strict, both-ends containment, typed and "
        "attached references, bytes <= size, saves and reloads). distinct_nontrivial = distinct faulted byte strings "
        "(differing from the valid file) handed to the loader."
    )

    def config(self, r):
        c = FaultProfile.config(self, r)
        return c

    def run(self, ctx, seed, run, ops=None, cfg=None):
        return self.run_faults(ctx, seed, run, ops, cfg)

    def tier_frac(self, cfg):
        return cfg.get("bit_fraction", self.bit_fraction)


from .profiles import C09 as _C09base  # noqa: E402
from .profiles import REGISTRY  # noqa: E402


class C09(FaultProfile, _C09base):
    """C09 = identity of references at every load (persist workload) + the
    negative direction (every 4th run): exactly one dangling or ill-typed
    reference of each kind -> DeserializationError."""

    prop = "C09"
    kinds = ("struct",)
    level = "exploration"
    bit_fraction = 0.0
    exhaustive_note = ""
    chunk = 10
    rule = _C09base.rule

    def config(self, r):
        return _C09base.config(self, r)

    def struct_filter(self, desc):
        return desc.startswith("dangling:") or desc.startswith("illtyped:")

    def run(self, ctx, seed, run, ops=None, cfg=None):
        faults = (cfg or {}).get("mode") == "faults" if cfg is not None else (run % 4 == 3)
        if faults:
            return self.run_faults(ctx, seed, run, ops, cfg)
        return Profile.run(self, ctx, seed, run, ops=ops, cfg=cfg)

    def nontrivial(self, w):
        return _C09base.nontrivial(self, w)

    def evidence(self, prop, tier, seed, results, wall, cut, lo, hi, jobs, pools_info=()):
        ev = Profile.evidence(self, prop, tier, seed, results, wall, cut, lo, hi, jobs, pools_info)
        return ev

    def extra_coverage(self, results, tot):
        d = PersistProfile.extra_coverage(self, results, tot)
        d["negative_direction"] = {
            "fault_runs": sum(1 for x in results if x["counters"].get("probe:valid_file_bytes")),
            "faults_fired": {k[6:]: v for k, v in sorted(tot.items()) if k.startswith("fault:")},
            "outcomes": {k[8:]: v for k, v in sorted(tot.items()) if k.startswith("outcome:")},
            "reject_exception_classes": {k[11:]: v for k, v in sorted(tot.items()) if k.startswith("reject_exc:")},
        }
        return d


REGISTRY["C09"] = C09
