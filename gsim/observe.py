"""Canonical views: what the public API shows for a live node, and what the
reference model says it should show. Both produce plain dicts of the same
shape so they can be compared with ==.

Must be called with the order seam in observing mode.
"""
from .world import PARENT_OF


def enum_name(e):
    return e.name


def se_attr_canon(a):
    """Expression attribute: enum name for known ones, int for unknown."""
    if isinstance(a, int) and not isinstance(a, bool):
        return a
    return getattr(a, "name", repr(a))


def se_view(w, e):
    g = w.g
    attrs = sorted((se_attr_canon(a) for a in e.attributes), key=repr)
    if type(e) is g.SymAddrConst:
        return ("ac", e.offset, w.L(e.symbol), attrs)
    if type(e) is g.SymAddrAddr:
        return ("aa", e.scale, e.offset, w.L(e.symbol1), w.L(e.symbol2), attrs)
    return ("?", type(e).__name__)


def se_model_view(spec):
    if spec[0] == "ac":
        return ("ac", spec[1], spec[2], sorted(spec[3], key=repr))
    return ("aa", spec[1], spec[2], spec[3], spec[4], sorted(spec[5], key=repr))


def label_view(l):
    if l is None:
        return None
    return (l.type.name, bool(l.conditional), bool(l.direct))


def edge_view(w, e):
    return (w.L(e.source), w.L(e.target), label_view(e.label))


def live_view(w, obj, kind, aux_values=False):
    """Observable content of one node (not its children's content)."""
    v = {"kind": kind, "uuid": obj.uuid.int}
    if kind != "ir":
        v["parent"] = w.L(getattr(obj, PARENT_OF[kind][2]))
    if kind == "ir":
        v["version"] = obj.version
        v["modules"] = [w.L(m) for m in obj.modules]
        v["cfg"] = sorted((edge_view(w, e) for e in obj.cfg), key=repr)
        v["aux"] = sorted(obj.aux_data.keys())
    elif kind == "mod":
        v["name"] = obj.name
        v["binary_path"] = obj.binary_path
        v["isa"] = obj.isa.name
        v["file_format"] = obj.file_format.name
        v["byte_order"] = obj.byte_order.name
        v["preferred_addr"] = obj.preferred_addr
        v["rebase_delta"] = obj.rebase_delta
        v["entry_point"] = w.L(obj.entry_point)
        v["aux"] = sorted(obj.aux_data.keys())
        for f in ("sections", "symbols", "proxies"):
            v[f] = w.Ls(getattr(obj, f))
    elif kind == "sec":
        v["name"] = obj.name
        v["flags"] = sorted(f.name for f in obj.flags)
        v["byte_intervals"] = w.Ls(obj.byte_intervals)
    elif kind == "bi":
        v["address"] = obj.address
        v["size"] = obj.size
        v["contents"] = bytes(obj.contents)
        v["blocks"] = w.Ls(obj.blocks)
        v["se"] = [(k, se_view(w, e)) for k, e in obj.symbolic_expressions.items()]
    elif kind in ("cb", "db"):
        v["offset"] = obj.offset
        v["size"] = obj.size
        if kind == "cb":
            v["decode_mode"] = obj.decode_mode.name
    elif kind == "sym":
        v["name"] = obj.name
        v["at_end"] = obj.at_end
        if obj.referent is not None:
            v["payload"] = ("ref", w.L(obj.referent))
        elif obj.value is not None:
            v["payload"] = ("int", obj.value)
        else:
            v["payload"] = None
    return v


def model_view(m, n):
    a = n.a
    v = {"kind": n.kind, "uuid": n.uuid}
    if n.kind != "ir":
        v["parent"] = n.parent
    if n.kind == "ir":
        v["version"] = a["version"]
        v["modules"] = list(a["modules"])
        v["cfg"] = sorted(a["cfg"], key=repr)
        v["aux"] = sorted(a["aux"].keys())
    elif n.kind == "mod":
        for k in ("name", "binary_path", "isa", "file_format", "byte_order", "preferred_addr", "rebase_delta", "entry_point"):
            v[k] = a[k]
        v["aux"] = sorted(a["aux"].keys())
        for f in ("sections", "symbols", "proxies"):
            v[f] = sorted(m.kids(n.label, f))
    elif n.kind == "sec":
        v["name"] = a["name"]
        v["flags"] = sorted(a["flags"])
        v["byte_intervals"] = sorted(m.kids(n.label, "byte_intervals"))
    elif n.kind == "bi":
        v["address"] = a["address"]
        v["size"] = a["size"]
        v["contents"] = bytes(a["contents"])
        v["blocks"] = sorted(m.kids(n.label, "blocks"))
        v["se"] = [(k, se_model_view(a["se"][k][0])) for k in sorted(a["se"])]
    elif n.kind in ("cb", "db"):
        v["offset"] = a["offset"]
        v["size"] = a["size"]
        if n.kind == "cb":
            v["decode_mode"] = a["decode_mode"]
    elif n.kind == "sym":
        v["name"] = a["name"]
        v["at_end"] = a["at_end"]
        p = a["payload"]
        v["payload"] = tuple(p) if p is not None else None
    return v


def diff_views(lv, mv):
    out = []
    for k in sorted(set(lv) | set(mv)):
        if lv.get(k, "<absent>") != mv.get(k, "<absent>"):
            out.append("%s: impl=%r model=%r" % (k, lv.get(k, "<absent>"), mv.get(k, "<absent>")))
    return out
